// kbdump: native prefix of the Tier B / Tier C checks. Builds the library of a template with the
// REAL builder and dumps it as a JSON heap image for gosym (see harness/zzkb).
//
//	kbdump <template> <out.json>
package main

import (
	"fmt"
	"os"

	"github.com/hyperjumptech/grule-rule-engine/zzkb"
)

func main() {
	if len(os.Args) != 3 {
		fmt.Fprintln(os.Stderr, "usage: kbdump <template> <out.json>")
		os.Exit(2)
	}
	lib, log, err := zzkb.RunTemplate(os.Args[1])
	if err != nil {
		fmt.Fprintln(os.Stderr, err)
		os.Exit(1)
	}
	if err := zzkb.Dump(lib, log, os.Args[2]); err != nil {
		fmt.Fprintln(os.Stderr, err)
		os.Exit(2)
	}
}
