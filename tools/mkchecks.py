#!/usr/bin/env python3
"""Generates checks.json (the registry read by ./check) from the structured definitions below."""
import json, os
V = os.path.dirname(os.path.dirname(os.path.abspath(__file__)))


def tfiles(names):
    """template file names: <name>.grl, or <name>.recipe.json for recipes (multi-resource / partial builds)"""
    return [t + (".grl" if os.path.exists(os.path.join(V, "templates", t + ".grl")) else ".recipe.json") for t in names]

fErr, fRetract, fCancel, fDeleted, fFlag, fListen, fTwoEff, fActErr = 1, 2, 4, 8, 16, 32, 64, 128
STUBS = ["ast/WhenScope.go:WhenScope.Evaluate", "ast/ThenScope.go:ThenScope.Execute"]
TIERA_H = [["engine", "harness/engine"], ["ast", "harness/ast_stubs"]]
FEATN = {1: "fail", 2: "retract", 4: "cancel", 8: "deleted", 16: "errflag", 32: "listeners", 64: "two-effects", 128: "action-fail"}


def featname(f):
    return "+".join(n for b, n in FEATN.items() if f & b) or "plain"


def tierA(n, k, feat, tiers, **kw):
    r = {"name": "tierA-n%d-k%d-%s" % (n, k, featname(feat)), "pkgdir": "engine", "harness": TIERA_H, "rename": STUBS, "entry": "VerifTierA",
         "args": [n, k, feat], "tiers": tiers, "replay_attempts": 40, "require_reach": ["tierA:execute-returned", "tierA:a-rule-fired"],
         "bounds": "every rule set of <= %d rules (bodies = nondeterministic stubs), <= %d firings, features: %s; saliences symbolic over int32, MaxCycle symbolic uint64" % (n, k, featname(feat))}
    r.update(kw)
    return r


def fetchA(n, feat, tiers, **kw):
    r = {"name": "fetchA-n%d-%s" % (n, featname(feat)), "pkgdir": "engine", "harness": TIERA_H, "rename": STUBS, "entry": "VerifTierAFetch",
         "args": [n, feat], "tiers": tiers, "replay_attempts": 40, "require_reach": ["tierA:fetch-returned"],
         "bounds": "FetchMatchingRules on every fresh rule set of <= %d rules (stub conditions), features: %s; saliences symbolic" % (n, featname(feat))}
    r.update(kw)
    return r


def histA(n, k, calls, feat, tiers, **kw):
    r = {"name": "histA-n%d-k%d-c%d-%s" % (n, k, calls, featname(feat)), "pkgdir": "engine", "harness": TIERA_H, "rename": STUBS,
         "entry": "VerifTierAHistory", "args": [n, k, calls, feat], "tiers": tiers, "replay_attempts": 60, "require_reach": ["tierA:later-call-checked"],
         "bounds": "every history of %d calls (Execute / ExecuteWithContext / FetchMatchingRules) on one instance of every rule set of <= %d rules, <= %d firings per call, features: %s" % (calls, n, k, featname(feat))}
    r.update(kw)
    return r


def salienceK(tiers):
    return {"name": "salience-literal", "pkgdir": "ast", "harness": [["ast", "harness/ast"]], "entry": "VerifSalienceLiteral", "tiers": tiers,
            "require_reach": ["salience:literal-processed"], "bounds": "Salience.AcceptIntegerLiteral + RuleEntry.AcceptSalience on every int64 literal"}


Q, T, QT = ["quick"], ["thorough"], ["quick", "thorough"]
TIERA_ASSUME = [
    "Tier A: conditions and actions are environment stubs (WhenScope.Evaluate / ThenScope.Execute replaced by overlay): everything the engine may observe from a rule body is nondeterministic; the real RuleEntry.Evaluate/Execute, engine loop, KnowledgeBase.Reset/RetractRule, DataContext, BuiltInFunctions.Retract/Complete run from SSA",
    "map iteration order of RuleEntries is fixed to insertion order without loss of generality: every attribute of every entry is an unconstrained variable (symmetry argument, DESIGN Appendix B)",
    "run length bounded: after k firings every condition returns false",
    "native replay of witnesses and counterexamples retries until Go's map iteration order matches the explored one",
]

P = {}
P["C19"] = {
    "design_ref": "DESIGN.md §8 C19",
    "bounds": "all ordered pairs of the 12 numeric kinds x operand shapes (plain, *T, interface{T}, *interface{T}, interface{*T}, **T; one side plain or both the same shape); bool; time.Time with loc in {UTC, fixed zone, Local}, with and without a monotonic clock reading (as time.Now() returns); strings of every length pair up to 2 (thorough 4) with fully symbolic bytes (plain, *string, interface); payloads fully symbolic (all bit patterns of each kind)",
    "outside": "uintptr operands; complex; strings longer than 4 bytes; two monotonic readings more than a second apart; NaN and unsigned values above MaxInt64 (excluded by the property)",
    "assumptions": ["reflect model of gosym (Kind/Int/Uint/Float/Bool/Elem/Field/Interface/ValueOf) - validated by native replay of witnesses",
                    "z3 5.1.0 FloatingPoint/BitVec theories; thorough re-asks every property query to z3 4.8.12 and cvc5"],
    "runs": [
        {"name": "num", "pkgdir": "pkg", "harness": {"pkg": "harness/pkg"}, "entry": "VerifC19Num", "require_reach": ["C19:num-pair"],
         "quick": {"args": [1]}, "thorough": {"args": [6], "secondary": "z3,cvc5"}},
        {"name": "bool", "pkgdir": "pkg", "harness": {"pkg": "harness/pkg"}, "entry": "VerifC19Bool", "require_reach": ["C19:bool"], "thorough": {"secondary": "z3,cvc5"}},
        {"name": "time", "pkgdir": "pkg", "harness": {"pkg": "harness/pkg"}, "entry": "VerifC19Time", "require_reach": ["C19:time", "C19:time:one-monotonic", "C19:time:both-monotonic"], "thorough": {"secondary": "z3,cvc5"}},
        {"name": "string", "pkgdir": "pkg", "harness": {"pkg": "harness/pkg"}, "entry": "VerifC19Str", "require_reach": ["C19:string"],
         "quick": {"args": [2]}, "thorough": {"args": [4], "secondary": "z3,cvc5"}},
    ]}
P["C03"] = {
    "design_ref": "DESIGN.md §8 C03, Appendix B", "assumptions": TIERA_ASSUME,
    "bounds": "Tier A: n <= 4 rules, K <= 3 firings, saliences over the whole int32 range incl. ties and negatives; Tier K: every int64 salience literal",
    "outside": "runs longer than K firings; more than n rules; the salience text -> integer step of the ANTLR listener (ParseInt is native)",
    "runs": [tierA(3, 2, 0, QT), tierA(3, 2, fDeleted | fRetract, Q), tierA(2, 2, fErr, QT), salienceK(QT),
             tierA(4, 2, 0, T), tierA(3, 3, fRetract, T), tierA(4, 2, fDeleted, T), tierA(3, 2, fErr | fFlag, T)]}
P["C06"] = {
    "design_ref": "DESIGN.md §8 C06, Appendix B", "assumptions": TIERA_ASSUME,
    "bounds": "Tier A: n <= 3 rules, K <= 4 firings, MaxCycle a symbolic uint64 (budgets 0..K decided exactly, larger budgets are 'not reached'), 0-2 listeners",
    "outside": "runs longer than K firings (the engine loop is not cut inductively); listeners that panic",
    "runs": [tierA(2, 2, fListen | fErr | fFlag, Q), tierA(3, 2, 0, QT), tierA(2, 2, fRetract | fDeleted, Q), tierA(2, 2, fCancel | fListen, QT),
             tierA(3, 3, fListen, T), tierA(2, 3, fErr | fFlag, T), tierA(2, 2, fErr | fFlag | fRetract, T), tierA(2, 4, 0, T), tierA(3, 2, fErr | fFlag | fDeleted, T)]}
P["C10"] = {
    "design_ref": "DESIGN.md §8 C10, Appendix B", "assumptions": TIERA_ASSUME,
    "bounds": "Tier A: n <= 4 rules, K <= 3 firings, each action performs up to two effects from {nothing, Retract(known name), Retract(unknown name), Complete}",
    "outside": "the position of Retract/Complete inside a *real* action list (Tier B templates); runs longer than K",
    "runs": [tierA(3, 2, fRetract, QT), tierA(2, 2, fRetract | fTwoEff, Q),
             tierA(3, 2, fRetract | fTwoEff, T), tierA(4, 2, fRetract, T), tierA(3, 3, fRetract, T), tierA(2, 2, fRetract | fErr | fFlag, T)]}
P["C11"] = {
    "design_ref": "DESIGN.md §8 C11, Appendix B", "assumptions": TIERA_ASSUME,
    "bounds": "Tier A: FetchMatchingRules on every fresh rule set of n <= 5 rules; saliences symbolic (ties, negatives), Deleted and failing conditions enumerated, flag enumerated",
    "outside": "repeated calls on one instance (C08); real conditions (Tier B)",
    "runs": [fetchA(3, fErr | fDeleted | fFlag, QT), fetchA(4, fDeleted, QT), fetchA(4, fErr | fDeleted | fFlag, T), fetchA(5, 0, T)]}
P["C14"] = {
    "design_ref": "DESIGN.md §8 C14, Appendix B", "assumptions": TIERA_ASSUME,
    "bounds": "Tier A: n <= 3 rules, K <= 3 firings; every condition may return a bool, a non-bool, an error or panic; every action may return nil, an error or panic; flag enumerated",
    "outside": "failure kinds outside the template family; runs longer than K",
    "runs": [tierA(2, 2, fErr | fFlag, QT), fetchA(3, fErr | fFlag, QT), tierA(3, 2, fErr | fFlag, T), tierA(2, 3, fErr | fFlag, T), tierA(2, 2, fErr | fFlag | fRetract, T), tierA(2, 2, fErr | fFlag | fListen | fDeleted, T)]}
P["C15"] = {
    "design_ref": "DESIGN.md §8 C15, Appendix B", "assumptions": TIERA_ASSUME + [
        "a cancellation landing in the engine's own straight-line code between two environment calls is indistinguishable from one landing in the adjacent call",
        "the context reports context.Canceled or context.DeadlineExceeded (both enumerated)"],
    "bounds": "Tier A: n <= 3 rules, K <= 3 firings; the context may be (or become) cancelled before the call and inside every condition, action and listener callback; also histories of 2 calls (Execute / ExecuteWithContext with a fresh, possibly pre-cancelled, context / FetchMatchingRules) on ONE engine and instance, n <= 2, K <= 1 per call",
    "outside": "runs longer than K; contexts whose Err() is not monotone",
    "runs": [tierA(2, 2, fCancel, QT), tierA(2, 2, fCancel | fRetract, QT), tierA(3, 1, fCancel, Q), tierA(3, 2, fCancel, T), tierA(2, 3, fCancel, T), tierA(2, 2, fCancel | fErr | fFlag, T), tierA(2, 2, fCancel | fRetract | fListen, T),
             dict(histA(2, 1, 2, fCancel, QT), entry="VerifTierAHistoryCtx", name="histActx-n2-k1-c2-cancel")]}
P["C08"] = {
    "design_ref": "DESIGN.md §8 C08, Appendix B", "assumptions": TIERA_ASSUME,
    "bounds": "Tier A: histories of <= 3 calls (Execute, ExecuteWithContext with a cancellable context, FetchMatchingRules) on one instance, n <= 3 rules, K <= 2 firings per call; every way of ending arises from the stubs",
    "outside": "leaked memo values of real expressions (Tier B); longer histories",
    "runs": [histA(2, 1, 2, fRetract, QT), histA(2, 1, 2, fRetract | fActErr, QT), histA(2, 2, 2, 0, T), histA(2, 1, 2, fErr | fFlag, T), histA(2, 1, 3, fRetract, T), histA(3, 1, 2, fRetract, T),
             histA(2, 1, 2, fCancel, T), histA(2, 1, 2, fErr | fFlag | fDeleted, T)]}
P["C16"] = {
    "design_ref": "DESIGN.md §8 C16", "assumptions": TIERA_ASSUME,
    "bounds": "Tier A: removed (Deleted) entries among n <= 4 rules are never evaluated, fired or returned",
    "outside": "build / remove / re-build histories, store/load of removed rules (other tiers)",
    "runs": [tierA(3, 2, fDeleted, QT), fetchA(4, fDeleted, QT), tierA(4, 2, fDeleted | fRetract, T)]}

TIERC_H = [["zztier", "harness/zztier"], ["ast", "harness/ast"], ["model", "harness/model"]]


def tierC(entry, tmpl, extra, tiers, reach, bounds, **kw):
    r = {"name": "%s-%s%s" % (entry.replace("VerifTierC", "tierC-").lower(), tmpl, "".join("-%s" % e for e in extra)), "pkgdir": "zztier",
         "harness": TIERC_H, "entry": entry, "args": [tmpl] + extra, "tiers": tiers, "templates": [tmpl + ".grl"], "require_reach": reach, "bounds": bounds}
    r.update(kw)
    return r


TIERC_ASSUME = [
    "rule sets enter the executor as heap images of knowledge bases built natively by the real builder (native prefix, zzkb/kbdump); the image is imported type-directed, a type or field the code no longer has is an infrastructure error",
    "the harness io.Writer / io.Reader are contract-abiding (a short write returns an error; the reader serves the first T bytes of the stored stream)",
    "all reads of the loader go through io.ReadFull (executed from the standard library's own SSA)",
]
P["C12"] = {
    "design_ref": "DESIGN.md §8 C12", "assumptions": TIERC_ASSUME,
    "bounds": "templates tiny (1 rule) and two (2 rules, 24 KB stream); saliences symbolic over int32 in the round trip; truncation offset T symbolic over [0,len): every field boundary and the first/last (thorough: every) offset inside each field; failing Write call index symbolic over all calls, with and without a partial write",
    "outside": "rule sets outside the template family; behavioural equivalence of loaded vs stored instances on symbolic facts (Tier B, when built); readers that return short reads without being at the end",
    "runs": [tierC("VerifTierCRoundTrip", "two", [1], QT, ["tierC:stored", "tierC:loaded"], "store->load->store->load of template two with symbolic saliences; overwrite=false"),
             tierC("VerifTierCRoundTrip", "two", [0], QT, ["tierC:stored", "tierC:loaded"], "same with concrete saliences, snapshots compared"),
             tierC("VerifTierCTruncate", "tiny", [0], QT, ["tierC:cut-inside-a-field", "tierC:cut-at-a-field-boundary"], "every truncation offset of template tiny's stream (symbolic T; first/last offset inside each field)"),
             tierC("VerifTierCWriterFault", "tiny", [], QT, ["tierC:faulty-store-returned"], "every index of a failing Write call while storing template tiny"),
             tierC("VerifTierCTruncate", "two", [0], T, ["tierC:cut-inside-a-field", "tierC:cut-at-a-field-boundary"], "every truncation offset of template two's stream", thorough={"max_decisions": 8000}),
             tierC("VerifTierCTruncate", "tiny", [1], T, ["tierC:cut-inside-a-field", "tierC:cut-at-a-field-boundary"], "every truncation offset of template tiny's stream, every position inside each field", thorough={"max_decisions": 8000}),
             tierC("VerifTierCWriterFault", "two", [], T, ["tierC:faulty-store-returned"], "every index of a failing Write call while storing template two"),
             ]}

def _tbsets():
    """the template sets are defined once, in harness/zztier/tierb.go (var tbSets)"""
    import re
    go = open(os.path.join(V, "harness", "zztier", "tierb.go")).read()
    body = re.search(r'var tbSets = map\[string\]\[\]string\{(.*?)\n\}', go, re.S).group(1)
    sets = {m.group(1): re.findall(r'"([^"]+)"', m.group(2)) for m in re.finditer(r'"(\w+)":\s*\{([^}]*)\}', body)}
    gen = os.path.join(V, "harness", "zztier", "gen_sets.go")  # generated family (tools/gen_tb.py)
    if os.path.exists(gen):
        for m in re.finditer(r'tbSets\["(\w+)"\] = \[\]string\{([^}]*)\}', open(gen).read()):
            sets[m.group(1)] = re.findall(r'"([^"]+)"', m.group(2))
    return sets


TB_SETS = _tbsets()
FLAGN = {1: "perm", 2: "symsal", 4: "nilP", 8: "errflag"}


def tierB(setname, k, flags, tiers, **kw):
    fn = "+".join(n for b, n in FLAGN.items() if flags & b) or "plain"
    r = {"name": "tierB-%s-k%d-%s" % (setname, k, fn), "pkgdir": "zztier", "harness": TIERC_H, "entry": "VerifTierBSet", "args": [setname, k, flags],
         "tiers": tiers, "templates": tfiles(TB_SETS[setname]), "replay_attempts": 150,
         "require_reach": ["tierB:execute-returned", "tierB:a-rule-fired", "tierB:quiescent"],
         "bounds": "template set '%s' (%s): real ASTs built natively, all fact scalars symbolic (integers |v|<1000, floats |v|<1000, bools), <= %d firings; %s" % (
             setname, ", ".join(TB_SETS[setname]), k, {"plain": "rule order = sorted", "perm": "every iteration order of RuleEntries", "perm+symsal": "every iteration order, symbolic saliences in [-100,100]"}.get(fn, fn))}
    r.update(kw)
    return r


TIERB_ASSUME = TIERC_ASSUME[:1] + [
    "Tier B: distinct fact paths do not alias; fact methods have no effect other than their documented one and their result depends on their arguments only (DESIGN §4)",
    "the C01/C02 oracle is the real interpreter evaluating the rule from scratch on an independently created instance after WorkingMemory.ResetAll (memo-free); C05 is responsible for the interpreter itself",
    "fact values bounded (|v| < 1000) so that the templates' arithmetic is free of overflow, NaN and infinities, as the properties require",
    "iteration order of RuleEntries is a quantified input (map rebuilt in a chosen insertion order); native replay retries until Go's iteration order matches",
]
P["C01"] = {
    "design_ref": "DESIGN.md §8 C01", "assumptions": TIERB_ASSUME,
    "bounds": "Tier B bounded runs: template set 'memo' (field / nested pointer / slice element / map entry / top-level variable / pointer-valued path; short-circuit; shared call; Forget/Changed by variable and by call text), K <= 4 firings, every rule order, symbolic saliences; Tier A: fired rule was satisfied (stub level)",
    "outside": "rule sets outside the template family; runs longer than K firings; JSON facts; aliasing facts; the inductive memo step of DESIGN §8 is not built",
    "runs": [tierB("memo", 3, 0, QT), tierB("memo", 3, 3, T), tierB("memo", 4, 1, T), tierA(3, 2, fDeleted | fRetract, QT)]}
P["C02"] = dict(P["C01"], design_ref="DESIGN.md §8 C02",
                runs=[tierB("memo", 3, 0, QT), tierB("memo", 3, 3, T), tierB("memo", 4, 1, T), tierB("control", 3, 0, T), tierA(3, 2, fRetract, QT)])
P["C13"] = {
    "design_ref": "DESIGN.md §8 C13", "assumptions": TIERB_ASSUME,
    "bounds": "Tier B: counted method F.Heavy(F.I) shared by 3 rules in different contexts (b_shared; b_sharedcomp: the same with compound assignments += -= *= to sibling fields, which must not count as invalidations) and all other memo templates; K <= 4 firings; invalidations counted from the fired rules' action lists",
    "outside": "other rule sets; the inductive 'one sweep performs zero calls' step is not built",
    "runs": [tierB("memo", 3, 0, QT, require_reach=["tierB:execute-returned", "tierB:counted-call-ran"]), tierB("memo", 4, 1, T, require_reach=["tierB:execute-returned", "tierB:counted-call-ran"]),
             tierB("memo3", 3, 0, QT, require_reach=["tierB:execute-returned", "tierB:counted-call-ran"])]}
def memoStep(setname, state, tiers):
    sn = {0: "filled", 1: "empty", 2: "alternating-a", 3: "alternating-b"}[state]
    return {"name": "memo-step-%s-%s" % (setname, sn), "pkgdir": "zztier", "harness": TIERC_H, "entry": "VerifMemoStep", "args": [setname, state], "tiers": tiers,
            "templates": tfiles(TB_SETS[setname]), "require_reach": ["memo:step-executed", "memo:remembered-expression-checked", "memo:sweep-after-the-step"], "compare_events": False,
            "bounds": "inductive memo step on every template of set '%s': arbitrary (symbolic) facts, memo state '%s' consistent with them, ONE arbitrary rule's action list; afterwards - and again after the evaluation sweep of the next cycle - every node still marked Evaluated holds the memo-free value and nothing is remembered for a node whose evaluation fails (invariant INV, which implies C01/C02 in every later cycle: no run-length bound for these templates)" % (setname, sn)}


for pid in ("C01", "C02"):
    P[pid]["runs"] += [memoStep("json", 0, QT), tierB("json", 2, 0, T), tierB("json", 2, 1, T)]
    P[pid]["bounds"] += "; JSON facts: template j_basic (member, nested member, array element, string and bool members, mixed with a Go fact) on a decoded JSON tree with symbolic leaves"
    P[pid]["outside"] = P[pid]["outside"].replace("; JSON facts", "")
for pid in ("C01", "C02", "C13"):
    P[pid]["runs"] += [memoStep("memo", 0, QT), memoStep("memo", 1, T), memoStep("memo", 2, T), memoStep("memo", 3, T)]
    P[pid]["bounds"] += "; inductive memo step (INV preserved by every rule's action list from an arbitrary fact state and a filled / empty / alternating memo) - removes the run-length bound for the template family"
    P[pid]["outside"] = P[pid]["outside"].replace("; the inductive memo step of DESIGN §8 is not built", "").replace("; the inductive 'one sweep performs zero calls' step is not built", "")

def loadedRun(entry, setname, extra, tiers, name):
    return {"name": name, "pkgdir": "zztier", "harness": TIERC_H, "entry": entry, "args": [setname] + extra, "tiers": tiers, "templates": tfiles(TB_SETS[setname]),
            "replay_attempts": 150, "compare_events": False, "extra_label_prefixes": ["C12:load-succeeds"],
            "bounds": "%s on the knowledge bases of set '%s' LOADED BACK from their GRB image (store -> load in the executor; the loader rebuilds the working-memory index maps)" % (entry, setname)}


P["C02"]["runs"] += [loadedRun("VerifMemoStepLoaded", "memo", [0], T, "memo-step-loaded-filled"), loadedRun("VerifTierBSetLoaded", "memo", [3, 0], T, "tierB-loaded-memo-k3")]
P["C02"]["bounds"] += "; thorough: the same on knowledge bases loaded back from their GRB image"
P["C12"]["runs"] += [dict(tierC("VerifTierCOverwrite", "two", [], QT, ["tierC:overwrite-case"], "overwrite=false: no entry / an entry with rules / an entry without rules already in the library"))]
P["C12"]["runs"] += [{"name": "tierc-equivalence-memo", "pkgdir": "zztier", "harness": TIERC_H, "entry": "VerifTierCEquiv", "args": ["memo"], "tiers": QT,
                      "templates": tfiles(TB_SETS["memo"]), "require_reach": ["tierC:equiv-loaded"], "compare_events": False,
                      "bounds": "every rule of the %d templates of set 'memo':" % len(TB_SETS["memo"]) + " instance of the stored vs. of the loaded vs. of the twice-loaded knowledge base on copies of the same symbolic facts (candidate flag and all resulting facts equal)"},
                     dict(loadedRun("VerifMemoStepLoaded", "memo", [0], T, "memo-step-loaded-filled"), extra_label_prefixes=["C01:", "C02:", "C12:load-succeeds"]),
                     dict(loadedRun("VerifTierBSetLoaded", "memo", [3, 0], T, "tierB-loaded-memo-k3"), extra_label_prefixes=["C01:", "C02:", "C12:load-succeeds"])]
P["C12"]["runs"] += [{"name": "tierc-equivalence-%s" % sn, "pkgdir": "zztier", "harness": TIERC_H, "entry": "VerifTierCEquiv", "args": [sn], "tiers": tr,
                      "templates": tfiles(TB_SETS[sn]), "require_reach": ["tierC:equiv-loaded"], "compare_events": False,
                      "bounds": "the same equivalence on the generated family '%s'" % sn} for sn, tr in (("genq", Q), ("gen", T), ("control", T), ("values", T))]
P["C12"]["bounds"] += "; behavioural equivalence: every rule of 13 templates evaluated and executed on symbolic facts in instances of the stored, loaded and twice-loaded knowledge base; thorough: bounded runs and the inductive memo step on loaded knowledge bases"
P["C12"]["outside"] = "rule sets outside the template family; readers that return short reads without being at the end"
P["C12"]["assumptions"] = TIERC_ASSUME + TIERB_ASSUME

P["C10"]["runs"] += [tierB("control", 3, 0, QT, require_reach=["tierB:self-retract-fired", "tierB:complete-fired"])]
P["C10"]["assumptions"] = TIERA_ASSUME + TIERB_ASSUME
P["C10"]["bounds"] += "; Tier B: Retract (self / other / unknown) and Complete in the middle of real action lists (template b_retract) reached through FunctionCall -> GoValueNode.CallFunction -> reflect MethodByName/Call"
P["C14"]["runs"] += [tierB("actfail2", 2, 0, QT, require_reach=["tierB:execute-returned", "tierB:failing-action-fired"]), tierB("kind2", 2, 0, QT), tierB("kind2", 2, 8, QT, require_reach=["tierB:execute-returned", "tierB:flag-set-and-a-condition-fails"]),
                     tierB("control", 3, 0, QT), tierB("nilp", 3, 4, QT, require_reach=["tierB:execute-returned"]),
                     tierB("failing", 2, 8, QT, require_reach=["tierB:execute-returned", "tierB:flag-set-and-a-condition-fails"])]
P["C14"]["assumptions"] = TIERA_ASSUME + TIERB_ASSUME
P["C14"]["bounds"] += "; Tier B: real failures chosen by the solver through the facts (index out of range, integer division by zero, panicking user method, nil pointer, kind mismatch, missing fact, missing map key, a failing parenthesised sub-expression, Complete() before a failing action; a failing sub-expression shared with a healthy rule); the same failing templates with ReturnErrOnFailedRuleEvaluation set (error names a rule whose memo-free evaluation fails, nothing fires)"

ALLB = sorted(set(sum(TB_SETS.values(), [])) | {"b_argshare", "two", "tiny"})


def c09(setname, k, tiers, **kw):
    r = {"name": "c09-%s-k%d" % (setname, k), "pkgdir": "zztier", "harness": TIERC_H, "entry": "VerifC09Set", "args": [setname, k], "tiers": tiers,
         "templates": tfiles(TB_SETS[setname]), "require_reach": ["c09:instances-created", "c09:both-executed"], "compare_events": False,
         "model_only_labels": ["C09:model:*"],
         "bounds": "template set '%s': real NewKnowledgeBaseInstance (all Clone methods, WorkingMemory.Clone, IsIdentical) in the executor; heap isomorphism incl. sharing and the five working-memory maps; reachability; read/write footprints of creation and of two runs on independent symbolic facts, <= %d firings each" % (setname, k)}
    r.update(kw)
    return r


P["C09"] = {
    "design_ref": "DESIGN.md §8 C09", "assumptions": TIERB_ASSUME + [
        "interference freedom is decided on footprints: W1 disjoint from R2+W2 and W2 disjoint from R1 for all fact values => every interleaving of the two executions is data-race free and equivalent to a sequential one (DRF argument); scheduling itself is not executed",
        "environment stubs (uuid, loggers, sync.Mutex, reflect's internal caches) are thread-safe by their own contract; a race inside a stubbed dependency is not seen",
        "footprint assertions (labels C09:model:*) have no native counterpart: a counterexample on them is reported from the model (the isomorphism / sharing / behavioural assertions replay natively)"],
    "bounds": "template set 'clone' (9 templates incl. heavy sharing: argument expressions shared with conditions), built and - second run - loaded back from the GRB image; 3 instances; K <= 2 firings per run; thorough: 8 generated rule sets",
    "outside": "rule sets outside the template family; more than 3 instances; races inside stubbed dependencies; GOMAXPROCS is immaterial to the argument",
    "runs": [c09("clone", 2, QT), dict(c09("clone", 2, QT), name="c09-clone-k2-loaded-from-GRB", entry="VerifC09SetLoaded", extra_label_prefixes=["C12:load-succeeds"]),
             c09("genq", 2, T), tierB("memo", 3, 0, T)]}



def reuseB(setname, k, tiers):
    return {"name": "tierB-reuse-%s-k%d" % (setname, k), "pkgdir": "zztier", "harness": TIERC_H, "entry": "VerifTierBReuse", "args": [setname, k, 0], "tiers": tiers,
            "templates": tfiles(TB_SETS[setname]), "replay_attempts": 150, "require_reach": ["tierB:second-call", "tierB:both-calls-fired"],
            "bounds": "two Execute calls on ONE instance of each template of set '%s', each with a new data context and its own symbolic facts, <= %d firings per call" % (setname, k)}


def reuseSameDC(setname, k, tiers):
    r = reuseB(setname, k, tiers)
    r.update(name="tierB-reuse-same-dc-%s-k%d" % (setname, k), entry="VerifTierBReuseSameDC", args=[setname, k],
             bounds="two Execute calls on ONE instance of each template of set '%s' with the SAME data context and fact objects, whose (symbolic) values the host program changes between the calls; <= %d firings per call" % (setname, k))
    return r


def reuseFetchOnly(setname, k, tiers):
    r = reuseB(setname, k, tiers)
    r.update(name="tierB-execute-after-fetch-only-%s-k%d" % (setname, k), args=[setname, k, 2], require_reach=["tierB:second-call", "tierB:execute-after-fetch-only-fired"],
             bounds="an instance of each template of set '%s' is first used ONLY through FetchMatchingRules (facts A), then Execute runs on a new data context with independent symbolic facts B; <= %d firings" % (setname, k))
    return r


def reuseOther(setname, k, tiers):
    r = reuseB(setname, k, tiers)
    r.update(name="tierB-same-dc-other-instance-%s-k%d" % (setname, k), entry="VerifTierBReuseOtherInstance", args=[setname, k],
             bounds="the SAME data context (facts changed by the host in between) is passed first to one instance and then to ANOTHER instance of each template of set '%s' (Forget / Changed in the second run must act on the second instance); <= %d firings per call" % (setname, k))
    return r


P["C08"]["runs"] += [reuseB("reuseq", 2, QT), reuseB("reuse", 2, T), reuseSameDC("reuseq", 2, QT), reuseSameDC("reuse", 2, T), reuseFetchOnly("reuseq", 2, QT), reuseOther("reusef", 2, QT)]
P["C08"]["runs"] += [reuseB("reusej", 2, QT)]
P["C02"]["runs"] += [reuseOther("reusef", 2, QT)]
for pid in ("C01", "C02"):
    P[pid]["runs"] += [tierB("memo2", 3, 0, QT), memoStep("memo2", 0, QT)]
P["C10"]["runs"] += [tierB("ctl2", 2, 0, QT, require_reach=["tierB:execute-returned", "tierB:retract-and-complete-fired", "tierB:complete-then-dependent-actions-fired"])]
P["C03"]["runs"] += [tierB("ctl1", 3, 0, QT, require_reach=["tierB:execute-returned", "tierB:complete-fired"])]
P["C16"]["runs"] += [{"name": "tierB-removal-during-the-run", "pkgdir": "zztier", "harness": TIERC_H, "entry": "VerifTierBRemoval", "args": ["removal", 3], "tiers": QT,
                      "templates": tfiles(TB_SETS["removal"]), "replay_attempts": 150, "require_reach": ["tierB:removal-run-returned", "tierB:rule-removed-during-the-run"], "compare_events": False,
                      "bounds": "templates b_basic, b_retract, two: during Execute a listener removes one (chosen) rule of the instance at one (chosen) firing; symbolic facts, <= 3 firings"}]
P["C01"]["runs"] += [reuseSameDC("reuseq", 2, QT)]
P["C01"]["bounds"] += "; the same data context passed to two Execute calls with host-side changes in between (nothing remembered from the first call may be served in the second)"
P["C08"]["assumptions"] = TIERA_ASSUME + TIERB_ASSUME
P["C08"]["bounds"] += "; Tier B: two calls on one instance of real templates with independent symbolic facts: memo-free oracle throughout the second call, the first caller's facts untouched by the second call"
P["C04"] = {
    "design_ref": "DESIGN.md §8 C04, Appendix C", "assumptions": TIERB_ASSUME + ["values within the destination's range (assumed per case, as the property says); map entries written with values of exactly the element type"],
    "bounds": "Tier K: model.SetNumberValue for all 12x12 (destination kind, source kind) pairs, payload fully symbolic; Tier B: 22 assignment cases (struct field, nested field behind a pointer, pointer-to-number field, slice element, existing and new map entry, top-level variable, string / bool / time field, pointer-valued path, compound forms on slice element and map entry, action order) with the expected post-value as a Go expression over the pre-facts and the frame condition on every other fact cell; compound assignments and frame conditions of all Tier B runs",
    "outside": "JSON facts (JSONValueNode setters); values outside the destination range; map entries of another kind than the element type (the property excludes them); rule sets outside the family",
    "runs": [{"name": "c04-setnumber", "pkgdir": "model", "harness": [["model", "harness/model"]], "entry": "VerifC04SetNumber", "tiers": QT, "require_reach": ["c04:kind-pair"],
              "bounds": "SetNumberValue, all 144 kind pairs", "thorough": {"secondary": "z3,cvc5"}},
             {"name": "c04-assign", "pkgdir": "zztier", "harness": TIERC_H, "entry": "VerifC04Assign", "tiers": QT, "templates": ["a_assign.grl"], "require_reach": ["c04:case"],
              "bounds": "22 assignment cases, symbolic facts, frame condition"},
             tierB("values", 3, 0, QT, require_reach=["tierB:execute-returned", "tierB:compound-fired-once"]), reuseB("reuseq", 2, QT), tierB("memo", 3, 0, T)]}


NC07 = len([f for f in os.listdir(os.path.join(V, "templates")) if f.startswith("c07_")])
P["C07"] = {
    "design_ref": "DESIGN.md §8 C07 (b)", "assumptions": TIERB_ASSUME + ["each rule is observed through its candidate flag and through ALL facts after running its action list, on copies of the same symbolic facts"],
    "bounds": "%d near-identical sibling pairs (" % NC07 + "one constant digit beyond the 6th decimal / sign / exponent / int-vs-float / one character / case / quotes and brackets forging another snapshot; one operator; one negation (paren, atom, call); one selector; one field; argument order / count / value; operand order incl. string +; grouping; assignment form; method vs field), each built natively ALONE and TOGETHER in both build orders, as one resource and as two separately loaded resources; facts symbolic; Tier K: snapshot injectivity of string constants up to 1 byte",
    "outside": "pairs outside the generated family; more than two rules sharing a knowledge base; snapshot injectivity for string constants longer than 1 byte and for number constants (strconv.FormatFloat / %d on symbolic values are out of reach)",
    "runs": [{"name": "c07-sibling-pairs", "pkgdir": "zztier", "harness": TIERC_H, "entry": "VerifC07All", "tiers": QT, "templates": ["c07_%d.recipe.json" % i for i in range(NC07)],
              "require_reach": ["c07:pair"], "bounds": "all %d sibling pairs" % NC07},
             {"name": "c07-string-constant-snapshots", "pkgdir": "ast", "harness": [["ast", "harness/ast"]], "entry": "VerifC07StringConstants", "args": [1, 0], "tiers": QT,
              "init": ["strconv", "unicode/utf8"], "require_reach": ["c07:string-constants"], "quick": {"max_values": 300}, "thorough": {"max_values": 300},
              "bounds": "Tier K: Constant.GetSnapshot (strconv.Quote from SSA) on two string constants of length <= 1 with fully symbolic bytes: different strings never share a snapshot, no bare quote in the payload, no collision with number / bool constants"}]}


P["C18"] = {
    "design_ref": "DESIGN.md §8 C18, Appendix C", "assumptions": TIERB_ASSUME + [
        "reference = the JSON operator tree grouped EXACTLY AS NESTED (n-ary operators fold to the left), generated by tools/gen_c18.py",
        "JSON text -> tree is encoding/json (native, concrete); the translator, the GRL parser and the builder run natively on each generated rule; evaluation of the built rule runs from SSA on symbolic facts"],
    "bounds": "every ordered pair (outer operator, nested operator) of the 15 operators with the nested object as left and as right operand over every well-typed int/bool/float operand triple (428 cases), n-ary forms, plain-string / obj-const-wrapped notations, constants of each kind, depth 3, both 'not' forms; 24 malformed / well-formed rule shapes (unknown operator, wrong arity, missing name/when/then, wrong operand types); string constants: the emitted literal of every 1-byte (quick) / 2-byte (thorough) string decodes to the same bytes",
    "outside": "trees outside the family; number formatting for all floats; string constants longer than 2 bytes; JSON text that is not well-formed JSON (encoding/json's business)",
    "runs": [{"name": "c18-set", "pkgdir": "zztier", "harness": TIERC_H, "entry": "VerifC18Set", "tiers": QT, "templates": ["c18_set.recipe.json"], "require_reach": ["c18:set"], "compare_events": False,
              "bounds": "a JSON rule SET of three rules (the second omitting desc and salience) and four sets with a malformed non-first element, through JSONResource + builder natively; names, descriptions, saliences and rejections checked on the imported libraries"},
             {"name": "c18-family", "pkgdir": "zztier", "harness": TIERC_H, "entry": "VerifC18All", "tiers": QT, "templates": ["c18_%d.recipe.json" % t for t in range(12)],
              "require_reach": ["c18:case"], "witnesses": 12, "bounds": "the whole generated family (442 JSON rules)"},
             {"name": "c18-malformed", "pkgdir": "pkg", "harness": [["pkg", "harness/pkg"]], "entry": "VerifC18Malformed", "tiers": QT, "require_reach": ["c18:malformed-case"],
              "bounds": "24 rule shapes through pkg.ParseRule from SSA"},
             {"name": "quote-roundtrip-1", "pkgdir": "antlr", "harness": [["antlr", "harness/antlr"], ["pkg", "harness/pkg"]], "entry": "VerifQuoteRoundTrip", "args": [1], "tiers": QT,
              "init": ["strconv", "unicode/utf8"], "require_reach": ["c18:quoted"], "quick": {"max_values": 300}, "thorough": {"max_values": 300}, "bounds": "every 1-byte string constant"},
             {"name": "quote-roundtrip-2", "pkgdir": "antlr", "harness": [["antlr", "harness/antlr"], ["pkg", "harness/pkg"]], "entry": "VerifQuoteRoundTrip", "args": [2], "tiers": T,
              "init": ["strconv", "unicode/utf8"], "require_reach": ["c18:quoted"], "thorough": {"max_values": 300}, "bounds": "every 2-byte string constant"}]}


HIST = ["h_remove", "h_reuse", "h_reuse_twice_lib", "h_reuse_twice_kb", "h_dup_later_resource", "h_dup_same_resource", "h_two_kbs", "h_dup_identical", "h_remove_among_kbs", "h_deleted_name"]
for sl in (0, 1):
    P["C16"]["runs"].append({"name": "c16-histories" + ("-stored" if sl else ""), "pkgdir": "zztier", "harness": TIERC_H, "entry": "VerifC16History", "args": [sl], "tiers": QT,
                             "templates": [h + ".recipe.json" for h in HIST], "require_reach": ["c16:history"] + (["c16:stored-and-loaded"] if sl else []), "replay_attempts": 60, "compare_events": False,
                             "bounds": "10 build / remove / re-build histories run natively by the real builder and library (remove, reuse of the name, second removal at library and knowledge-base level, duplicate in a later and in the same resource, two knowledge bases in one library, removal from one of three knowledge bases that share a name or a version)" + (", then store -> load" if sl else "") + "; suffix on symbolic facts"})
P["C16"]["assumptions"] = TIERA_ASSUME + TIERB_ASSUME
P["C16"]["bounds"] += "; Tier B: 7 histories (native prefix) continued symbolically: instantiate, Execute and FetchMatchingRules on symbolic facts (removed rules never evaluated / fired / matched, the reused name behaves exactly as its rule built alone), again after store -> load"
P["C16"]["outside"] = "histories outside the 7 recipes; symbolic rule names (the Tier K of DESIGN §8 C16 over SMT strings is not built)"

def fetchTwice(setname, tiers):
    return {"name": "tierB-fetch-twice-%s" % setname, "pkgdir": "zztier", "harness": TIERC_H, "entry": "VerifFetchTwice", "args": [setname], "tiers": tiers,
            "templates": tfiles(TB_SETS[setname]), "require_reach": ["tierB:second-fetch"], "compare_events": False,
            "bounds": "FetchMatchingRules twice on one instance and one data context of each template of set '%s', the host changing the (symbolic) facts in between" % setname}


P["C11"]["runs"].append(fetchTwice("fetch", QT))
P["C11"]["runs"].append(histA(2, 1, 2, fRetract, QT))
P["C11"]["bounds"] += "; Tier A histories of two calls (Execute with Retract, then FetchMatchingRules) on one instance"
P["C11"]["outside"] = "rule sets outside the families"
P["C11"]["assumptions"] = TIERA_ASSUME + TIERB_ASSUME
P["C11"]["bounds"] += "; Tier B: real conditions of 6 templates on symbolic facts, FetchMatchingRules called twice on one instance and data context with host-side fact changes in between (result = exactly the rules whose condition holds now)"
P["C08"]["runs"].append(fetchTwice("fetch", T))
P["C08"]["runs"].append({"name": "tierB-clock-reuse", "pkgdir": "zztier", "harness": TIERC_H, "entry": "VerifClockReuse", "tiers": QT, "templates": ["b_clock.grl"],
                         "require_reach": ["tierB:clock-second-call", "tierB:clock-stamped-in-second-call"], "compare_events": False,
                         "bounds": "two Execute calls on one instance of template b_clock with time.Now as an arbitrary non-decreasing clock (environment stub): what the second call reads from Now() is not older than the start of that call"})

P["C20"] = {
    "design_ref": "DESIGN.md §8 C20", "assumptions": TIERC_ASSUME + [
        "over-allocation is decided at every make() whose size derives from the input: the executor asserts size*elemsize <= 4*len(input) + 128 KiB for ALL values of the mutated field (solver), then continues with representative sizes (0, 1, two solver-chosen) - explicit concretisation",
        "hang / stack exhaustion = a path exhausting the executor's per-path instruction or call-depth budget (reported as a violation); wall-clock time and RSS are not measured",
        "native confirmation of an allocation counterexample: the replay allocates more than 8x the policy (runtime.MemStats.TotalAlloc) or the process dies with 'out of memory'"],
    "bounds": "GRB stream of template tiny (8 KB, 133 eight-byte fields; thorough: template two, 24 KB): every 8-byte field (length prefix, element count, node type, salience, float payload, value type) replaced, one at a time, by 8 fully symbolic bytes; the head of every longer read (nested length prefix of string constants, text, snapshots - symbolic strings as map keys are resolved by forking against the keys present) likewise; salience literal: every int64; JSON rule translator: 24 rule shapes incl. wrong types at every position, nesting depth 1100; truncation of the GRB stream at every offset (C12's run)",
    "outside": "GRL text through the ANTLR lexer/parser and JSON fact / JSON rule TEXT through encoding/json on SYMBOLIC bytes (not reachable by this technique, DESIGN §9; concrete corpora only); mutations that edit more than one field or splice strings; time and memory are bounded symbolically (loop/alloc bounds), not measured",
    "runs": [dict(tierC("VerifC20Field", "tiny", [0, -1], QT, ["c20:load-returned", "c20:field-mutated"], "every 8-byte field of template tiny's stream replaced by symbolic bytes"),
                  extra_label_prefixes=["alloc-bounded:"], replay_each_in_own_process=True, compare_events=True),
             dict(tierC("VerifC20Splice", "tiny", [], QT, ["c20:splice-load-returned", "c20:id-spliced"], "every id-sized string of template tiny's stream replaced, one at a time, by the id of the node being read (a node naming itself as its child): the loader terminates within the budget"),
                  replay_each_in_own_process=True),
             dict(tierC("VerifC20Blob", "b_string", [], QT, ["c20:blob-load-returned", "c20:blob-head-mutated"], "the first 8 bytes of every longer read (text, snapshot, constant payload with its nested length prefix, version) of template b_string's stream replaced, one at a time, by 8 symbolic bytes"),
                  extra_label_prefixes=["alloc-bounded:"], replay_each_in_own_process=True, compare_events=True),
             dict(tierC("VerifC20Blob", "b_float", [], T, ["c20:blob-load-returned", "c20:blob-head-mutated"], "the same on template b_float's stream"),
                  extra_label_prefixes=["alloc-bounded:"], replay_each_in_own_process=True),
             dict(tierC("VerifC20SnapshotLinear", "s_shapes", [], QT, ["c20:snapshot-nodes-walked"], "GRL text part: for every node (333, every alternative of the expression grammar) of template s_shapes as built by the real parser, the node's snapshot is no longer than 32 + 4 per child + 6x its own identifier text + the snapshots of its direct children - by induction snapshots (computed by the listener for every node) stay linear in the text; CONCRETE enumeration of nodes executed from SSA, not solver-quantified"), no_native=False),
             dict(tierC("VerifC20SnapshotCost", "s_deep", [], QT, ["c20:snapshot-cost-measured"], "GRL text part: computing the snapshot of each of 11 rules with 12-16 levels of every nesting construct (negation, parentheses, selectors, method / member chains, nested calls and selectors, deep sums) costs at most 600 SSA instructions per byte of rule text (measured: 11-27) - a node kind that evaluates a child's snapshot twice is exponential in the depth; CONCRETE inputs, cost counted by the executor (natively: time)"), replay_each_in_own_process=True),
             {"name": "json-fact-text", "pkgdir": "zztier", "harness": TIERC_H, "entry": "VerifC20JSONFacts", "tiers": QT, "templates": ["j_basic.grl"], "require_reach": ["c20:json-fact-text", "c20:json-fact-accepted"],
              "extra_label_prefixes": ["C14:no-panic-escapes"],
              "bounds": "DataContext.AddJSON on a structure-aware corpus of 44 CONCRETE JSON fact texts (empty / truncated / scalars and arrays at the root / null and wrong kinds at every position template j_basic reads or writes / huge numbers / nesting 200, 5000, 20000) followed by a 3-cycle run of j_basic on whatever was accepted; json.Unmarshal native, JSONValueNode from SSA; enumeration, not solver-quantified"},
             dict(salienceK(QT), name="salience-literal"),
             {"name": "c18-malformed", "pkgdir": "pkg", "harness": [["pkg", "harness/pkg"]], "entry": "VerifC18Malformed", "tiers": QT, "require_reach": ["c18:malformed-case"], "bounds": "24 JSON rule shapes through pkg.ParseRule"},
             {"name": "json-rule-text", "pkgdir": "pkg", "harness": [["pkg", "harness/pkg"]], "entry": "VerifC20JSONText", "tiers": QT, "require_reach": ["c20:json-text"],
              "bounds": "JSONResource.Load on a structure-aware corpus of 33 CONCRETE JSON rule texts and fragments (empty / blank / truncated / null at every position / wrong kinds); enumeration executed from SSA, not solver-quantified"},
             {"name": "json-nesting", "pkgdir": "pkg", "harness": [["pkg", "harness/pkg"]], "entry": "VerifC18Nesting", "args": [1100], "tiers": QT, "require_reach": ["c18:nesting"], "bounds": "JSON nesting depth 1100 (guard at 1024)"},
             tierC("VerifTierCTruncate", "tiny", [0], QT, ["tierC:cut-inside-a-field", "tierC:cut-at-a-field-boundary"], "every truncation offset of template tiny's stream: no panic escapes"),
             dict(tierC("VerifC20Field", "two", [0, -1], T, ["c20:load-returned", "c20:field-mutated"], "every 8-byte field of template two's stream replaced by symbolic bytes"),
                  extra_label_prefixes=["alloc-bounded:"], replay_each_in_own_process=True),
             ]}


def c05(t, tiers):
    return {"name": "c05-family-%d" % t, "pkgdir": "zztier", "harness": TIERC_H, "entry": "VerifC05", "args": [t], "tiers": tiers, "templates": ["c05_%d.grl" % t],
            "require_reach": ["c05:case"], "bounds": "generated family part %d (30 expressions): evaluated through Sink = <expr> and as a rule condition on symbolic operands" % t}


P["C05"] = {
    "design_ref": "DESIGN.md §8 C05, Appendix C", "assumptions": TIERB_ASSUME + [
        "reference semantics (DESIGN Appendix C) generated by tools/gen_c05.py from the PUBLISHED precedence table: trees grouped by that table, printed with only the parentheses it requires; value = 64-bit Go arithmetic with int->float promotion, / = real quotient",
        "side conditions of the property: divisors non-zero, |operands| < 1000 (no overflow), no NaN"],
    "bounds": "every ordered pair of the 15 binary operators 'x op1 y op2 z' over every operand-kind triple (int/bool/float) that is well-typed (321 cases), 19 notation cases (parentheses overriding / redundant, comments, literal notations decimal/hex/octal/exponent/hex-float, keyword case, uint8 operand), 24 depth-3 trees, 5 negation forms; method-call argument order and variadics (template b_args); string == and + on concrete strings; each as an assignment to a typed sink and (bool) as a rule condition; operands symbolic",
    "outside": "the lexer is not encoded: literal notations, whitespace and comments are exercised concretely, once each, not solver-quantified; built-in functions on symbolic strings longer than 3 bytes or non-ASCII, Trim / MatchString / Split on symbolic strings, time built-ins on symbolic times, the remaining math wrappers (trigonometric, Gamma, Bessel ...); string contents; expression depth > 3; operand values beyond |v| < 1000",
    "runs": [{"name": "c05-family", "pkgdir": "zztier", "harness": TIERC_H, "entry": "VerifC05All", "tiers": QT, "templates": ["c05_%d.grl" % t for t in range(13)],
              "require_reach": ["c05:case"], "witnesses": 12, "bounds": "the whole generated family (367 expressions): evaluated through Sink = <expr> and as a rule condition on symbolic operands"},
             tierB("values", 3, 0, QT, require_reach=["tierB:execute-returned", "tierB:args-fired"]),
             {"name": "quote-roundtrip-1", "pkgdir": "antlr", "harness": [["antlr", "harness/antlr"], ["pkg", "harness/pkg"]], "entry": "VerifQuoteRoundTrip", "args": [1], "tiers": QT,
              "init": ["strconv", "unicode/utf8"], "require_reach": ["c18:quoted"], "extra_label_prefixes": ["C18:string-constant"], "quick": {"max_values": 300}, "thorough": {"max_values": 300},
              "bounds": "string literal decoding (unquoteString) of the quoted form of every 1-byte string"},
             {"name": "c05-builtins", "pkgdir": "zztier", "harness": TIERC_H, "entry": "VerifC05Builtin", "tiers": QT, "templates": ["c05b.grl"], "require_reach": ["c05:builtin-case"],
              "bounds": "46 built-in / math / constant-function cases (Max, Min, Abs, rounding family, Sqrt, IsNaN, IsInf, string Len/Contains/HasPrefix/HasSuffix/Index/LastIndex/Count/Compare/ToUpper/ToLower/Repeat/Replace/Trim/In/MatchString, array and map Len, IsNil, IsZero, MakeTime/IsTimeBefore/IsTimeAfter/GetTime*/TimeFormat) against their Go result: float and int operands symbolic, strings and times concrete"},
             {"name": "c05-builtins-symbolic-string", "pkgdir": "zztier", "harness": TIERC_H, "entry": "VerifC05BuiltinSymStr", "tiers": QT, "templates": ["c05b.grl"], "require_reach": ["c05:builtin-symstr-case"],
              "quick": {"args": [2]}, "thorough": {"args": [3]},
              "bounds": "the 15 string cases of the built-in family with F.S a byte-array string of 2 (thorough 3) fully symbolic ASCII bytes; the strings package runs from its own SSA (bytealg.Count/Compare/IndexByte modelled by forking per byte)"}]}

P["C04"]["runs"].append(tierB("json", 2, 0, T))
# generated template family (tools/gen_tb.py, fixed seed): 40 random rule sets, each biased to one container addressed through
# differently spelled paths
GEN_NOTE = "; generated family 'gen' (40 random rule sets over one container each - slice, map, element structs behind slice / map, pointer / value owners, top-level variable, plain fields, computed indices - addressed through literal and computed selectors; fixed seed): inductive memo step (thorough: all 40 and an empty memo; quick: the first 8), bounded runs K<=3 (thorough)"
for pid in ("C01", "C02"):
    P[pid]["runs"] += [memoStep("genq", 0, QT), memoStep("gen", 0, T)]
    P[pid]["bounds"] += GEN_NOTE
P["C02"]["runs"] += [memoStep("gen", 1, T), dict(tierB("gen", 3, 0, T), thorough={"wall": "45m"})]
P["C04"]["runs"].append(tierB("genq", 2, 0, T))
P["C04"]["runs"].append(tierB("actfail", 2, 0, QT, require_reach=["tierB:execute-returned", "tierB:failing-action-fired"]))
P["C04"]["bounds"] += "; a failing action in the middle of an action list (nothing is written after it); pointer-to-number fields keep their cell"
P["C04"]["bounds"] = P["C04"]["bounds"].replace("22 assignment cases", "28 assignment cases (6 on JSON members)")
P["C04"]["outside"] = "values outside the destination range; map entries of another kind than the element type (the property excludes them); rule sets outside the family; JSON facts are decoded trees with symbolic leaves (json.Unmarshal itself is native)"
P["C03"]["runs"].append(dict(tierC("VerifTierCRoundTrip", "two", [1], QT, ["tierC:stored", "tierC:loaded"], "saliences (symbolic, int32) survive store -> load -> store -> load"),
                               extra_label_prefixes=["C12:first-load:same-salience", "C12:second-load:same-salience"]))
P["C03"]["bounds"] += "; the salience of every rule (symbolic int32) survives the binary store/load round trip"

json.dump({"properties": P}, open(os.path.join(V, "checks.json"), "w"), indent=1)
print("properties:", sorted(P))
