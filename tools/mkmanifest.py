#!/usr/bin/env python3
"""Regenerates MANIFEST.json from checks.json (claimed properties) and tools/manifest_meta.json (texts)."""
import json, os
V = os.path.dirname(os.path.dirname(os.path.abspath(__file__)))
reg = json.load(open(os.path.join(V, "checks.json")))
meta = json.load(open(os.path.join(V, "tools", "manifest_meta.json")))
ids = [json.loads(l)["id"] for l in open(os.path.join(V, "properties.jsonl"))]
checks, na = [], []
for i in ids:
    if i in reg["properties"] and i in meta["claimed"]:
        m = meta["claimed"][i]
        checks.append({
            "property_id": i,
            "quick_cmd": "./check %s quick" % i,
            "thorough_cmd": "./check %s thorough" % i,
            "evidence_file": "/verif/evidence/%s.json" % i,
            "replay_cmd_template": "./check replay {path}",
            "engine": "gosym",
            "level_claimed": {"category": "model_checking", "text": m["text"], "design_ref": reg["properties"][i].get("design_ref", "")},
            "level_note": m["note"],
            "technique": m["technique"],
        })
    else:
        na.append({"property_id": i, "reason": meta["not_applicable"].get(i, "check not built yet (framework under construction); see DESIGN.md section 8")})
man = {
    "version": 1,
    "setup_cmd": "./check build",
    "hooks": {"guard": "verif", "enable": "none needed: harnesses and stubs are injected by go build / go/packages overlays (gosym overlay), /repo carries no hook code",
              "baseline_off_cmd": "cd /repo && go test -mod=mod -json -vet=off -count=1 -timeout 25m ./...", "source_commits": [], "add_only": True},
    "engines": [{"name": "gosym", "path": "/verif/gosym", "serves_properties": [c["property_id"] for c in checks],
                 "kind_free_text": "symbolic executor for Go SSA (fork of x/tools go/ssa/interp): concrete heap, symbolic scalars as SMT terms (bit-vectors, IEEE floats, strings), DART-style re-execution forking, z3 5.1.0 primary with z3 4.8.12 / cvc5 cross-check, native replay of every counterexample"}],
    "checks": checks,
    "not_applicable": na,
    "notes": meta.get("notes", ""),
}
json.dump(man, open(os.path.join(V, "MANIFEST.json"), "w"), indent=1)
print("claimed:", [c["property_id"] for c in checks])
