#!/usr/bin/env python3
"""Generates the C18 family: JSON operator trees -> templates/c18_<n>.recipe.json (built through the REAL translator
pkg.JSONResource + builder, natively) and harness/zztier/gen_c18.go (reference = the JSON tree grouped EXACTLY AS NESTED)."""
import itertools, json, os, sys
V = os.path.dirname(os.path.dirname(os.path.abspath(__file__)))
sys.path.insert(0, os.path.join(V, "tools"))
import importlib.util
spec = importlib.util.spec_from_file_location("g5", os.path.join(V, "tools", "gen_c05.py"))

# --- minimal re-implementation of the typed tree of gen_c05 (kept separate: importing gen_c05 would regenerate its files)
ARITH, BIT, CMP, LOG = ['+', '-', '*', '/', '%'], ['&', '|'], ['<', '<=', '>', '>=', '==', '!='], ['&&', '||']
JN = {'+': 'plus', '-': 'minus', '*': 'mul', '/': 'div', '%': 'mod', '&': 'band', '|': 'bor', '<': 'lt', '<=': 'lte', '>': 'gt', '>=': 'gte',
      '==': 'eq', '!=': 'not', '&&': 'and', '||': 'or'}


class Leaf:
    def __init__(self, grl, go, kind, const=None):
        self.grl, self.go, self.kind, self.const = grl, go, kind, const


class Neg:
    """single-operand "not": logical negation (the repository's own TestParseJSONNegation pins this reading)"""
    def __init__(self, arg):
        self.arg, self.kind, self.args = arg, 'bool', [arg]


class Bin:
    def __init__(self, op, args):
        self.op, self.args = op, args
        self.kind = self.typ()

    def typ(self):
        ks = [a.kind for a in self.args]
        if None in ks:
            return None
        num = ('int', 'float')
        op = self.op
        k = ks[0]
        for b in ks[1:]:
            a = k
            if op in ('+', '-', '*'):
                k = ('float' if 'float' in (a, b) else 'int') if a in num and b in num else None
            elif op == '/':
                k = 'float' if a in num and b in num else None
            elif op in ('%', '&', '|'):
                k = 'int' if a == b == 'int' else None
            elif op in ('<', '<=', '>', '>='):
                k = 'bool' if a in num and b in num else None
            elif op in ('==', '!='):
                k = 'bool' if (a in num and b in num) or a == b == 'bool' else None
            else:
                k = 'bool' if a == b == 'bool' else None
            if k is None:
                return None
        return k


def go(e):
    if isinstance(e, Leaf):
        return e.go
    if isinstance(e, Neg):
        return "verif.Not(%s)" % go(e.arg)

    def fl(x, k):
        return x if k == 'float' else "float64(%s)" % x
    acc, ka = go(e.args[0]), e.args[0].kind
    for b in e.args[1:]:
        bs, kb = go(b), b.kind
        op = e.op
        if op == '/':
            acc, ka = "(%s / %s)" % (fl(acc, ka), fl(bs, kb)), 'float'
        elif op in ('+', '-', '*') and 'float' in (ka, kb):
            acc, ka = "(%s %s %s)" % (fl(acc, ka), op, fl(bs, kb)), 'float'
        elif op in ('<', '<=', '>', '>=', '==', '!=') and 'float' in (ka, kb):
            acc, ka = "(%s %s %s)" % (fl(acc, ka), op, fl(bs, kb)), 'bool'
        elif op in ('&&', '||'):
            acc, ka = "verif.%s(%s, %s)" % ('And' if op == '&&' else 'Or', acc, bs), 'bool'
        elif op in ('==', '!=') and ka == 'bool':
            acc = ("verif.Iff(%s, %s)" % (acc, bs)) if op == '==' else ("verif.Not(verif.Iff(%s, %s))" % (acc, bs))
            ka = 'bool'
        elif op in ('<', '<=', '>', '>=', '==', '!='):
            acc, ka = "(%s %s %s)" % (acc, op, bs), 'bool'
        else:
            acc = "(%s %s %s)" % (acc, op, bs)
    return acc


def js(e, style):
    """style 0: leaves as plain strings / numbers where allowed; 1: obj/const wrapped"""
    if isinstance(e, Neg):
        return {"not": [js(e.arg, style)]}
    if isinstance(e, Leaf):
        if getattr(e, "jsv", None) is not None:
            return e.jsv
        if e.const is not None:
            return {"const": e.const} if style == 1 or isinstance(e.const, (bool, str)) else e.const
        return {"obj": e.grl} if style == 1 else e.grl
    args = [js(a, style) for a in e.args]
    if e.op in ('&&', '||'):
        # compound operators take objects only
        args = [a if isinstance(a, dict) else ({"obj": a} if isinstance(a, str) else {"const": a}) for a in args]
    return {JN[e.op]: args}


def divisors(e, out):
    if isinstance(e, Neg):
        divisors(e.arg, out)
    if isinstance(e, Bin):
        if e.op in ('/', '%'):
            out.extend(e.args[1:])
        for a in e.args:
            divisors(a, out)


I, J, K = Leaf("F.I", "f.I", 'int'), Leaf("F.J", "f.J", 'int'), Leaf("F.K", "f.K", 'int')
X = Leaf("F.X", "f.X", 'float')
B, C = Leaf("F.B", "f.B", 'bool'), Leaf("F.C", "f.C", 'bool')
C3 = Leaf("3", "int64(3)", 'int', 3)
C25 = Leaf("2.5", "2.5", 'float', 2.5)
CT = Leaf("true", "true", 'bool', True)
CBIG = Leaf("16777217", "int64(16777217)", 'int', 16777217)
CF7 = Leaf("1234.5678", "1234.5678", 'float', 1234.5678)
CALL = Leaf("F.IsOpen()", "f.IsOpen()", 'bool')
CALL.jsv = {"call": ["F.IsOpen"]}
ALL = ARITH + BIT + CMP + LOG
cases = []
seen = set()
for op1, op2 in itertools.product(ALL, ALL):
    for pos in (0, 1):
        for kinds in itertools.product(['int', 'bool', 'float'], repeat=3):
            if kinds.count('float') > 1:
                continue
            pool = {'int': [I, J, K], 'float': [X, X, X], 'bool': [B, C, B]}
            used = {'int': 0, 'float': 0, 'bool': 0}
            ls = []
            for k in kinds:
                ls.append(pool[k][used[k]])
                used[k] += 1
            x, y, z = ls
            t = Bin(op1, [Bin(op2, [x, y]), z]) if pos == 0 else Bin(op1, [x, Bin(op2, [y, z])])
            if t.kind is None:
                continue
            key = (op1, op2, pos, 'float' in kinds)
            if key in seen:
                continue
            seen.add(key)
            cases.append(("nest(%s,%s,%s)%s" % (JN[op1], JN[op2], "left" if pos == 0 else "right", ":float" if 'float' in kinds else ""), t, (len(cases) % 2)))
extra = [
    ("nary-plus", Bin('+', [I, J, K]), 0), ("nary-minus", Bin('-', [I, J, K]), 1), ("nary-mul-div", Bin('*', [Bin('/', [I, J]), K]), 0),
    ("nary-and", Bin('&&', [B, C, Bin('<', [I, J])]), 1), ("nary-or", Bin('||', [B, C, Bin('<', [I, J])]), 1),
    ("const-int", Bin('+', [I, C3]), 1), ("const-float", Bin('*', [X, C25]), 1), ("const-bool", Bin('==', [B, CT]), 1),
    ("const-int-plain-number", Bin('+', [I, C3]), 0), ("const-float-plain-number", Bin('<', [X, C25]), 0),
    ("depth3", Bin('<', [Bin('+', [I, Bin('*', [J, K])]), Bin('-', [K, Bin('%', [I, J])])]), 1),
    ("depth3-logic", Bin('&&', [Bin('||', [B, Bin('<', [I, J])]), Bin('!=', [Bin('<', [J, K]), C])]), 1),
    ("not-with-one-nested-operand", Bin('!=', [B, Bin('<', [I, J])]), 1),
    ("not-with-two-nested-operands", Bin('!=', [Bin('<', [I, J]), Bin('<', [J, K])]), 1),
    ("single-not-of-nested-operator", Neg(Bin('<', [I, J])), 1),
    ("single-not-of-plain-string", Neg(B), 0), ("single-not-of-obj", Neg(B), 1), ("single-not-of-const", Neg(CT), 1),
    ("single-not-of-call", Neg(CALL), 1), ("single-not-inside-and", Bin('&&', [Neg(B), C]), 1),
    ("single-not-of-single-not", Neg(Neg(Bin('<', [I, J]))), 1),
    ("single-not-of-and-of-single-nots", Neg(Bin('&&', [Neg(B), Neg(C)])), 1),
    ("single-not-of-or-of-single-nots", Neg(Bin('||', [Neg(B), Neg(Bin('<', [I, J]))])), 1),
    ("single-not-of-and-first-not-last-nested", Neg(Bin('&&', [Neg(B), Bin('<', [I, J])])), 1),
    ("single-not-of-and-first-plain-last-not", Neg(Bin('&&', [C, Neg(B)])), 1),
    ("and-of-single-nots", Bin('&&', [Neg(B), Neg(C)]), 1),
    ("nary-not-three-operands", Bin('!=', [B, C, Bin('<', [I, J])]), 1),
    ("nary-not-three-nested-operands", Bin('!=', [Bin('<', [I, J]), Bin('<', [J, K]), Bin('<', [K, I])]), 1),
    ("const-int-needs-25-bits", Bin('+', [I, CBIG]), 1), ("const-float-needs-8-digits", Bin('*', [X, CF7]), 1),
    ("const-float-needs-8-digits-compare", Bin('<', [Bin('+', [X, CF7]), CF7]), 1),
    ("call-operand", Bin('&&', [CALL, B]), 1),
]
cases += extra

PER = 40
gof = ['// Code generated by tools/gen_c18.py; DO NOT EDIT.', '', 'package zztier', '', 'import verif "github.com/hyperjumptech/grule-rule-engine/zzverif"', '', 'var _ = verif.And', '',
       'var c18Cases = [][]c05Case{']
n_t = 0
for ci in range(0, len(cases), PER):
    chunk = cases[ci:ci + PER]
    steps = []
    gof.append('\t{')
    for k, (tag, t, style) in enumerate(chunk):
        name = "J%03d" % (ci + k)
        if t.kind == 'bool':
            rule = {"name": name, "desc": tag, "salience": (ci + k) % 7 - 3, "when": js(t, style), "then": [{"set": [{"obj": "F.RB"}, {"const": True}]}]}
        else:
            sink = "F.RI" if t.kind == 'int' else "F.RF"
            rule = {"name": name, "desc": tag, "salience": (ci + k) % 7 - 3, "when": "true", "then": [{"set": [{"obj": sink}, js(t, style)]}]}
        steps.append({"op": "buildjson", "json": json.dumps(rule), "record_error": True})
        ds = []
        divisors(t, ds)
        # innermost divisors first: each is assumed non-zero before an enclosing divisor expression is evaluated
        nz = "".join("verif.Assume(%s != 0); " % go(d) for d in reversed(ds)) + "return true"
        kindn = {'int': 0, 'float': 1, 'bool': 2}[t.kind]
        ref = {'int': 'refI: func(f *Fact) int64 { return %s }', 'float': 'refF: func(f *Fact) float64 { return %s }', 'bool': 'refB: func(f *Fact) bool { return %s }'}[t.kind] % go(t)
        gof.append('\t\t{tag: "%s", rule: "%s", text: %s, kind: %d, %s, nz: func(f *Fact) bool { %s }},' % (tag, name, json.dumps(json.dumps(rule["when"] if t.kind == 'bool' else rule["then"][0])), kindn, ref, nz))
    gof.append('\t},')
    json.dump({"steps": steps}, open(os.path.join(V, "templates", "c18_%d.recipe.json" % n_t), "w"), indent=1)
    n_t += 1
gof += ['}', '', 'const c18Templates = %d' % n_t, '', '// salience and description given in the JSON (checked against the built rule entry)',
        'func c18Salience(k int) int { return k%7 - 3 }']
open(os.path.join(V, "harness", "zztier", "gen_c18.go"), "w").write("\n".join(gof) + "\n")
print("cases:", len(cases), "templates:", n_t)
