#!/bin/bash
# tools/matrix.sh [ids...] — runs the quick check of each seeded change's own property (plus extras listed in
# seeded/<id>/also.txt) with the change applied to /repo, and records what was reported in seeded/<id>/detection.json.
cd /verif
ids="$@"; [ -z "$ids" ] && ids=$(ls seeded)
for id in $ids; do
  d=seeded/$id; prop=${id%%-*}
  props="$prop"; [ -f $d/also.txt ] && props="$props $(cat $d/also.txt)"
  if ! git -C /repo apply --check /verif/$d/patch.diff 2>/dev/null; then echo "$id: patch does not apply to the current tree"; echo '{"applies": false}' > $d/detection.json; continue; fi
  git -C /repo apply /verif/$d/patch.diff
  res="{\"applies\": true, \"checks\": {"
  sep=""
  for p in $props; do
    out=$(./check $p quick 2>&1); rc=$?
    labels=$(echo "$out" | grep "^VIOLATION" | sed 's/.*# //' | cut -d' ' -f1 | sort -u | head -8 | python3 -c "import sys,json; print(json.dumps([l.strip() for l in sys.stdin]))")
    inc=$(echo "$out" | grep -c "^INCONCLUSIVE")
    res="$res$sep\"$p\": {\"exit\": $rc, \"violation_labels\": $labels, \"inconclusive_lines\": $inc}"
    sep=", "
    echo "$id: ./check $p quick -> exit $rc $(echo $labels | cut -c1-160)"
  done
  res="$res}}"
  git -C /repo checkout -- . ; git -C /repo clean -fdq
  echo "$res" > $d/detection.json
done
