#!/usr/bin/env python3
"""Generates the C07 sibling-pair family: templates/c07_<n>.recipe.json (4 knowledge bases per pair: each rule alone,
both together in both build orders) and harness/zztier/gen_c07.go (the list of pairs)."""
import json, os
V = os.path.dirname(os.path.dirname(os.path.abspath(__file__)))


def rule(name, cond, act):
    return 'rule %s "%s" { when %s then %s }' % (name, name, cond, act)


# (tag, condition1, action1, condition2, action2): near-identical siblings; each rule is observable through its own sink
P = [
    ("float-constant-beyond-6th-decimal", "F.X > 0.0000001", 'F.RS = "1";', "F.X > 0.0000003", 'F.R = "2";'),
    ("float-constant-beyond-6th-decimal-in-action", "F.B", "F.RF = F.X + 0.1234561;", "F.C", "F.Y = F.X + 0.1234564;"),
    ("constant-sign", "F.I > 5", 'F.RS = "1";', "F.I > -5", 'F.R = "2";'),
    ("constant-exponent", "F.X > 1e2", 'F.RS = "1";', "F.X > 1e3", 'F.R = "2";'),
    ("constant-int-vs-float", "F.I / 2 > 1", 'F.RS = "1";', "F.I / 2.0 > 1", 'F.R = "2";'),
    ("constant-int-vs-float-equal-value", "F.X == 2", 'F.RI = 2 * F.I;', "F.X == 2.0", 'F.RF = 2.0 * F.I;'),
    ("constant-one-digit", "F.I == 10", 'F.RS = "1";', "F.I == 11", 'F.R = "2";'),
    ("string-one-character", 'F.S == "go"', 'F.RS = "1";', 'F.S == "gp"', 'F.R = "2";'),
    ("string-case", 'F.S == "go"', 'F.RS = "1";', 'F.S == "Go"', 'F.R = "2";'),
    ("string-trailing-space", 'F.S + "x" == "gox"', 'F.RS = "1";', 'F.S + "x " == "gox "', 'F.R = "2";'),
    ("string-with-quote-and-brackets-forging-a-two-argument-call", 'F.Join("x", "y") == "xy"', 'F.RS = "1";',
     'F.Join("x\\")))),E(EA(A(C(string->\\"y") == "xy"', 'F.R = "2";'),
    ("string-constant-vs-number-text", 'F.S + "1" == "go1"', 'F.RS = "1";', 'F.S + 1 == "go1"', 'F.R = "2";'),
    ("operator-lt-vs-le", "F.I < F.J", 'F.RS = "1";', "F.I <= F.J", 'F.R = "2";'),
    ("operator-plus-vs-minus", "F.I + F.J > 0", 'F.RS = "1";', "F.I - F.J > 0", 'F.R = "2";'),
    ("operator-and-vs-or", "F.B && F.C", 'F.RS = "1";', "F.B || F.C", 'F.R = "2";'),
    ("operator-eq-vs-ne", "F.I == F.J", 'F.RS = "1";', "F.I != F.J", 'F.R = "2";'),
    ("negation-paren-vs-plain", "(F.I > 5) && F.B", 'F.RS = "1";', "!(F.I > 5) && F.B", 'F.R = "2";'),
    ("negation-atom-vs-plain", "F.B && F.C", 'F.RS = "1";', "!F.B && F.C", 'F.R = "2";'),
    ("negation-of-call", "F.Heavy(F.I) && F.C", 'F.RS = "1";', "!F.Heavy(F.I) && F.C", 'F.R = "2";'),
    ("selector-index", "F.Arr[0] > 1", 'F.RS = "1";', "F.Arr[1] > 1", 'F.R = "2";'),
    ("selector-key", 'F.M["a"] > 1', 'F.RS = "1";', 'F.M["b"] > 1', 'F.R = "2";'),
    ("selector-in-target", "F.B", "F.Arr[0] = 7;", "F.C", "F.Arr[1] = 7;"),
    ("field-name", "F.P.V > 1", 'F.RS = "1";', "F.Q.V > 1", 'F.R = "2";'),
    ("argument-order", "F.Lin3(F.I, F.J, F.K) > 0", 'F.RS = "1";', "F.Lin3(F.I, F.K, F.J) > 0", 'F.R = "2";'),
    ("argument-count", "F.Sum(F.I, F.J) > 0", 'F.RS = "1";', "F.Sum(F.I, F.J, F.J) > 0", 'F.R = "2";'),
    ("argument-value", "F.Sum(F.I, 1) > 0", 'F.RS = "1";', "F.Sum(F.I, 2) > 0", 'F.R = "2";'),
    ("operand-order-minus", "F.I - F.J > 0", 'F.RS = "1";', "F.J - F.I > 0", 'F.R = "2";'),
    ("operand-order-string-plus", 'F.S + F.R == "gono"', 'F.RS = F.S + F.R;', 'F.R + F.S == "nogo"', 'F.RS = F.R + F.S;'),
    ("operand-order-lt", "F.I < F.J", 'F.RS = "1";', "F.J < F.I", 'F.R = "2";'),
    ("grouping", "F.I - (F.J - F.K) > 0", 'F.RS = "1";', "F.I - F.J - F.K > 0", 'F.R = "2";'),
    ("assignment-form", "F.B", "F.I += F.J;", "F.C", "F.I -= F.J;"),
    ("assignment-form-mul-div", "F.B", "F.X *= 2.0;", "F.C", "F.X /= 2.0;"),
    ("method-vs-field", "F.GetI() > 1", 'F.RS = "1";', "F.I > 1", 'F.R = "2";'),
    ("constant-int-vs-float-where-the-kind-matters-mod", "F.I % 2 == 1", 'F.RS = "1";', "F.X * 2.0 > 4.5", 'F.R = "2";'),
    ("constant-int-vs-float-where-the-kind-matters-string-plus", "F.B", 'F.RS = "n" + 2;', "F.C", 'F.R = "w" + 2.0;'),
    ("constant-int-vs-float-exponent-notation", "F.I % 100 == 1", 'F.RS = "1";', "F.X < 1e2", 'F.R = "2";'),
    ("sibling-reads-what-the-rule-assigns", "F.I < 3", 'F.RS = "1";', "F.I >= 3", "F.I = F.I - 5;"),
    ("sibling-reads-what-the-rule-assigns-mirrored", "F.J >= 3", "F.J = F.J - 5;", "F.J < 3", 'F.R = "2";'),
    ("sibling-reads-an-element-the-rule-writes", "F.Arr[0] < 3", 'F.RS = "1";', "F.Arr[F.In] >= 3", "F.Arr[0] = 0;"),
    ("receiver-shared-by-two-different-method-calls", "F.P.Double() > 2", 'F.RS = "1";', "F.P.Neg() < 0", "F.P = F.Q;"),
    ("receiver-shared-by-two-different-method-calls-mirrored", "F.P.Neg() < 0", "F.P = F.Q;", "F.P.Double() > 2", 'F.R = "2";'),
    ("receiver-shared-by-a-method-call-and-a-member", "F.P.Double() > 2", "F.P = F.Q;", "F.P.V > 1", "F.P = F.Q;"),
    ("receiver-shared-by-two-different-method-calls-both-rules-move-it", "F.P.Double() > 2", "F.P = F.Q;", "F.P.Neg() < 0", "F.P = F.Q;"),
    ("receiver-shared-by-a-method-call-and-its-negation", "F.P.Double() > 2", "F.P = F.Q;", "!F.P.IsPos()", "F.P = F.Q;"),
    ("receiver-behind-a-swapped-pointer-shared-by-two-method-calls", 'F.P.S.ToUpper() == "P"', "F.P = F.Q;", 'F.P.S.ToLower() == "p"', "F.P = F.Q;"),
    ("receiver-behind-a-swapped-pointer-shared-by-a-call-and-a-member-read", 'F.P.S.ToUpper() == "P"', "F.P = F.Q;", 'F.P.S.Len() + F.P.V > 1', "F.P = F.Q;"),
    ("argument-shared-by-two-different-calls", "F.Lin3(F.I + 1, 0, 0) > 0", "F.I = F.I - 5;", "F.Sum(F.I + 1) > 0", "F.I = F.I - 5;"),
    ("float-constant-beyond-15-significant-digits", "F.X > 0.3", 'F.RS = "1";', "F.X > 0.30000000000000004", 'F.R = "2";'),
    ("float-constant-next-double-after-one", "F.X > 1.0", 'F.RS = "1";', "F.X > 1.0000000000000002", 'F.R = "2";'),
    ("same-condition-spelled-differently", "F.X > 1.0", "F.X = F.X - 5.0;", "F.X > 1.00", "F.X = F.X - 5.0;"),
]
go = ['// Code generated by tools/gen_c07.py; DO NOT EDIT.', '', 'package zztier', '', 'var c07Pairs = []string{']
for n, (tag, c1, a1, c2, a2) in enumerate(P):
    r1, r2 = rule("S1", c1, a1), rule("S2", c2, a2)
    steps = [{"op": "build", "kb": "A1", "grl": r1}, {"op": "build", "kb": "A2", "grl": r2},
             {"op": "build", "kb": "T12", "grl": r1 + "\n" + r2}, {"op": "build", "kb": "T21", "grl": r2 + "\n" + r1},
             # the same pair added by two SEPARATE resources (hot-loading a second file), both orders
             {"op": "build", "kb": "S12", "grl": r1}, {"op": "build", "kb": "S12", "grl": r2},
             {"op": "build", "kb": "S21", "grl": r2}, {"op": "build", "kb": "S21", "grl": r1}]
    json.dump({"steps": steps}, open(os.path.join(V, "templates", "c07_%d.recipe.json" % n), "w"), indent=1)
    go.append('\t"%s",' % tag)
go.append('}')
open(os.path.join(V, "harness", "zztier", "gen_c07.go"), "w").write("\n".join(go) + "\n")
print("pairs:", len(P))
