#!/bin/bash
# quick manual Tier A run: tools/runa.sh <args> [entry]
cd /verif
bin/gosym run -dir /repo -overlay .work/t2/overlay.json -pkg ./engine -entry engine.${2:-VerifTierA} -args $1 -out .work/t2/r.json 2>&1 | grep -o "paths=[0-9]*\|map\[[a-z:0-9 -]*\]\|viol=map\[[^]]*\]\|wall=.*\|end x.*\|BOUND.*"| tr '\n' ' '; echo
