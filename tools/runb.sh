#!/bin/bash
# manual Tier B/C run: tools/runb.sh <Entry> <args>
cd /verif
bin/gosym run -dir /repo -overlay .work/t4/overlay.json -pkg ./zztier -kbdir .work/t4/kb -out .work/t4/r.json -entry zztier.$1 -args $2 2>&1 | grep -o "paths=[0-9]*\|map\[[a-z:0-9 -]*\]\|viol=map\[[^]]*\]\|wall=.*\|end x.*\|BOUND.*"| tr '\n' ' ' | cut -c1-900; echo
