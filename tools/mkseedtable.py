#!/usr/bin/env python3
"""Regenerates the table of DESIGN.md section 12.5 (between the SEEDTABLE markers) from seeded/<id>/{meta,detection}.json and
the optional seeded/<id>/note.txt (why a change is missed / obsolete / superseded)."""
import json, os, re
V = os.path.dirname(os.path.dirname(os.path.abspath(__file__)))
rows, kept, caught, missed, na = [], 0, 0, [], []


def key(d):
    m = re.match(r'(C\d+)-(?:r(\d+))?(?:m(\d+)(p?)|h(\w+))', d)
    if m.group(5):
        return (m.group(1), 99, 0, m.group(5))  # historical reverts of repairs, after the seeded rounds
    return (m.group(1), int(m.group(2) or 1), int(m.group(3)), m.group(4))


for d in sorted(os.listdir(os.path.join(V, "seeded")), key=key):
    p = os.path.join(V, "seeded", d)
    meta = json.load(open(os.path.join(p, "meta.json")))
    det = json.load(open(os.path.join(p, "detection.json"))) if os.path.exists(os.path.join(p, "detection.json")) else None
    note = open(os.path.join(p, "note.txt")).read().strip() if os.path.exists(os.path.join(p, "note.txt")) else ""
    title = meta.get("title", "")
    if len(title) > 170:
        title = title[:167] + "..."
    title = title.replace("|", "\\|")
    kept += 1
    if det is None:
        out = "not run yet"
    elif not det.get("applies", True):
        out = "does not apply to the current tree" + (" - " + note if note else "")
        na.append(d)
    else:
        hits = [(c, r) for c, r in det["checks"].items() if r["exit"] == 1 and r["violation_labels"]]
        if hits:
            caught += 1
            c, r = hits[0]
            labs = ", ".join("`%s`" % l for l in r["violation_labels"][:2]) + (" ..." if len(r["violation_labels"]) > 2 else "")
            out = "**caught** by `./check %s quick`: %s" % (c, labs)
            if len(hits) > 1:
                out += " (also by " + ", ".join("`./check %s quick`" % c2 for c2, _ in hits[1:]) + ")"
        else:
            ex = ", ".join("`./check %s quick` exit %d" % (c, r["exit"]) for c, r in det["checks"].items())
            out = "not reported (%s)" % ex + (" - " + note if note else " - MISSED")
            (na if note.lower().startswith(("obsolete", "superseded")) else missed).append(d)
    rows.append("| %s | %s | %s |" % (d, title, out))
table = "| seeded change | what it is | outcome |\n|---|---|---|\n" + "\n".join(rows)
summary = "\n\n%d changes kept; %d caught by the quick check of their own property; not caught: %s; obsolete / superseded / not applicable: %s." % (
    kept, caught, ", ".join(missed) or "none", ", ".join(na) or "none")
path = os.path.join(V, "DESIGN.md")
s = open(path).read()
a, b = s.index("<!-- SEEDTABLE:BEGIN -->"), s.index("<!-- SEEDTABLE:END -->")
s = s[:a] + "<!-- SEEDTABLE:BEGIN -->\n" + table + summary + "\n" + s[b:]
open(path, "w").write(s)
print("kept", kept, "caught", caught, "missed", missed, "n/a", na)
