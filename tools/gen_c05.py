#!/usr/bin/env python3
"""Generates the C05 expression family: templates/c05_<n>.grl and harness/zztier/gen_c05.go.

Each case is an expression tree built according to the PUBLISHED precedence table (5: * / % &, 4: + - |,
3: comparisons, 2: &&, 1: ||; left-associative), printed as GRL with only the parentheses that table requires
(plus variants with redundant parentheses / comments / keyword case), and a Go reference expression that
computes its value per the documented semantics (64-bit Go arithmetic, int->float promotion, / = real quotient).
The real parser groups the text by its grammar; the harness compares the interpreter's value with the reference
for ALL operand values (solver)."""
import itertools, os, random
V = os.path.dirname(os.path.dirname(os.path.abspath(__file__)))

PREC = {'*': 5, '/': 5, '%': 5, '&': 5, '+': 4, '-': 4, '|': 4, '==': 3, '!=': 3, '<': 3, '<=': 3, '>': 3, '>=': 3, '&&': 2, '||': 1}
ARITH, BIT, CMP, LOG = ['+', '-', '*', '/', '%'], ['&', '|'], ['<', '<=', '>', '>=', '==', '!='], ['&&', '||']
OPNAME = {'+': 'plus', '-': 'minus', '*': 'mul', '/': 'div', '%': 'mod', '&': 'band', '|': 'bor', '<': 'lt', '<=': 'le', '>': 'gt', '>=': 'ge',
          '==': 'eq', '!=': 'ne', '&&': 'and', '||': 'or'}


class Leaf:
    def __init__(self, grl, go, kind):
        self.grl, self.go, self.kind = grl, go, kind


class Bin:
    def __init__(self, op, l, r):
        self.op, self.l, self.r = op, l, r
        self.kind = self.typ()

    def typ(self):
        a, b, op = self.l.kind, self.r.kind, self.op
        if a is None or b is None:
            return None
        num = ('int', 'float')
        if op in ('+', '-', '*'):
            if a in num and b in num:
                return 'float' if 'float' in (a, b) else 'int'
            return None
        if op == '/':
            return 'float' if a in num and b in num else None
        if op in ('%', '&', '|'):
            return 'int' if a == 'int' and b == 'int' else None
        if op in ('<', '<=', '>', '>='):
            return 'bool' if a in num and b in num else None
        if op in ('==', '!='):
            if a in num and b in num:
                return 'bool'
            return 'bool' if a == b == 'bool' else None
        if op in ('&&', '||'):
            return 'bool' if a == b == 'bool' else None


def grl(e, parent_prec=0, right=False, redundant=False):
    if isinstance(e, Leaf):
        return e.grl
    p = PREC[e.op]
    s = "%s %s %s" % (grl(e.l, p, False, redundant), e.op, grl(e.r, p, True, redundant))
    need = p < parent_prec or (p == parent_prec and right)
    return "(" + s + ")" if need or redundant else s


def go(e):
    if isinstance(e, Leaf):
        return e.go
    a, b = go(e.l), go(e.r)
    ka, kb = e.l.kind, e.r.kind

    def fl(x, k):
        return x if k == 'float' else "float64(%s)" % x
    if e.op == '/':
        return "(%s / %s)" % (fl(a, ka), fl(b, kb))
    if e.op in ('+', '-', '*', '<', '<=', '>', '>=', '==', '!=') and 'float' in (ka, kb):
        return "(%s %s %s)" % (fl(a, ka), e.op, fl(b, kb))
    if e.op in ('&&', '||'):
        return "verif.%s(%s, %s)" % ('And' if e.op == '&&' else 'Or', a, b)
    if e.op in ('==', '!=') and ka == 'bool':
        return ("verif.Iff(%s, %s)" % (a, b)) if e.op == '==' else ("verif.Not(verif.Iff(%s, %s))" % (a, b))
    return "(%s %s %s)" % (a, e.op, b)


def divisors(e, out):
    """operands that must be non-zero: right operands of / and %"""
    if isinstance(e, Bin):
        if e.op in ('/', '%'):
            out.append(e.r)
        divisors(e.l, out)
        divisors(e.r, out)


I, J, K = Leaf("F.I", "f.I", 'int'), Leaf("F.J", "f.J", 'int'), Leaf("F.K", "f.K", 'int')
X, Y = Leaf("F.X", "f.X", 'float'), Leaf("F.Y", "f.Y", 'float')
B, C = Leaf("F.B", "f.B", 'bool'), Leaf("F.C", "f.C", 'bool')
U8 = Leaf("F.U8", "int64(f.U8)", 'int')
C3, C25 = Leaf("3", "int64(3)", 'int'), Leaf("2.5", "2.5", 'float')
ALLOPS = ARITH + BIT + CMP + LOG

cases = []  # (id, tag, tree)


def leaves_for(kinds):
    pool = {'int': [I, J, K], 'float': [X, Y, X], 'bool': [B, C, B]}
    used = {'int': 0, 'float': 0, 'bool': 0}
    out = []
    for k in kinds:
        out.append(pool[k][used[k]])
        used[k] += 1
    return out


# all ordered operator pairs x op1 y op2 z, grouped by the published table, over every operand-kind triple that types
seen = set()
for op1, op2 in itertools.product(ALLOPS, ALLOPS):
    for kinds in itertools.product(['int', 'bool', 'float'], repeat=3):
        if kinds.count('float') > 1:
            continue
        x, y, z = leaves_for(kinds)
        if PREC[op1] >= PREC[op2]:
            t = Bin(op2, Bin(op1, x, y), z)
        else:
            t = Bin(op1, x, Bin(op2, y, z))
        if t.kind is None:
            continue
        key = (op1, op2, kinds.count('float') > 0)
        if key in seen:
            continue
        seen.add(key)
        cases.append(("pair(%s,%s)%s" % (OPNAME[op1], OPNAME[op2], ":float" if 'float' in kinds else ""), t, grl(t)))

# depth 3 samples (seeded), parenthesised forms, negation, literals, uint8 operand
rnd = random.Random(1)  # fixed: the generated family is committed, not re-drawn per run
extra = [
    ("paren-override", Bin('*', Bin('+', I, J), K), "(F.I + F.J) * F.K"),
    ("paren-override-right", Bin('-', I, Bin('-', J, K)), "F.I - (F.J - F.K)"),
    ("redundant-parens", Bin('+', I, Bin('*', J, K)), "((F.I) + ((F.J * F.K)))"),
    ("left-assoc-minus", Bin('-', Bin('-', I, J), K), "F.I - F.J - F.K"),
    ("left-assoc-div", Bin('/', Bin('/', I, J), K), "F.I / F.J / F.K"),
    ("left-assoc-mod-mul", Bin('*', Bin('%', I, J), K), "F.I % F.J * F.K"),
    ("comment-and-spacing", Bin('+', I, Bin('*', J, K)), "F.I   +  /* c */ F.J\n      * F.K // tail"),
    ("literal-decimal", Bin('+', I, C3), "F.I + 3"),
    ("literal-hex", Bin('+', I, Leaf("0x1F", "int64(31)", 'int')), "F.I + 0x1F"),
    ("literal-octal", Bin('+', I, Leaf("017", "int64(15)", 'int')), "F.I + 017"),
    ("literal-float-exp", Bin('*', X, Leaf("1.5e2", "150.0", 'float')), "F.X * 1.5e2"),
    ("literal-hex-float", Bin('*', X, Leaf("0x1p-2", "0.25", 'float')), "F.X * 0x1p-2"),
    ("literal-real", Bin('+', I, C25), "F.I + 2.5"),
    ("uint8-operand", Bin('+', U8, I), "F.U8 + F.I"),
    ("uint8-compare", Bin('<', U8, I), "F.U8 < F.I"),
    ("int-div-is-real", Bin('/', I, J), "F.I / F.J"),
    ("mixed-promotion", Bin('<', Bin('+', I, X), Bin('*', J, C25)), "F.I + F.X < F.J * 2.5"),
    ("bool-keyword-case", Bin('&&', B, Leaf("TRUE", "true", 'bool')), "F.B && TRUE"),
    ("bool-keyword-case2", Bin('||', B, Leaf("False", "false", 'bool')), "F.B || False"),
]
for tag, t, text in extra:
    cases.append((tag, t, text))
for n in range(24):
    ops = [rnd.choice(ARITH[:3] + ['|']) for _ in range(3)]  # '&' is covered exhaustively by the pair cases
    ls = [I, J, K, C3]
    rnd.shuffle(ls)
    # build by precedence climbing over the published table
    toks = [ls[0], ops[0], ls[1], ops[1], ls[2], ops[2], ls[3]]

    def parse(pos, minp):
        lhs = toks[pos]
        pos += 1
        while pos < len(toks) and PREC[toks[pos]] >= minp:
            op = toks[pos]
            rhs, pos = parse(pos + 1, PREC[op] + 1)
            lhs = Bin(op, lhs, rhs)
        return lhs, pos
    t, _ = parse(0, 1)
    cases.append(("depth3(%s,%s,%s)" % tuple(OPNAME[o] for o in ops), t, grl(t)))

# negation forms
neg = [
    ("not-atom", "!F.B", "verif.Not(f.B)"),
    ("not-paren", "!(F.I < F.J)", "verif.Not(f.I < f.J)"),
    ("not-paren-and", "!(F.B && F.C)", "verif.Not(verif.And(f.B, f.C))"),
    ("not-binds-tighter-than-and", "!F.B && F.C", "verif.And(verif.Not(f.B), f.C)"),
    ("not-paren-or-mixed", "!(F.B || F.I > 3) && F.C", "verif.And(verif.Not(verif.Or(f.B, f.I > 3)), f.C)"),
    # strings: '+' concatenates in operand order (both orders in one knowledge base), comparisons are lexicographic
    ("string-plus-order-1", 'F.S + F.R == "gono"', 'f.S+f.R == "gono"'),
    ("string-plus-order-2", 'F.R + F.S == "nogo"', 'f.R+f.S == "nogo"'),
    ("string-plus-literal-left", '"a" + F.S == "ago"', '"a"+f.S == "ago"'),
    ("string-plus-literal-right", 'F.S + "a" == "goa"', 'f.S+"a" == "goa"'),
    ("string-less", 'F.S < F.R', 'f.S < f.R'),
    ("string-greater-equal", 'F.S >= F.R', 'f.S >= f.R'),
    ("string-not-equal", 'F.S != F.R', 'f.S != f.R'),
    # short-circuit with a bool held in an interface (map[string]interface{} entry): the failing right operand is NOT evaluated
    ("short-circuit-or-with-an-interface-typed-true", 'F.Flags["vip"] || F.Flags["missing"]', 'true', 'f.Flags["vip"].(bool)'),
    ("short-circuit-and-with-an-interface-typed-false", 'F.Flags["vip"] && F.Flags["missing"]', 'false', 'verif.Not(f.Flags["vip"].(bool))'),
    ("short-circuit-or-with-an-interface-typed-true-skips-a-panicking-call", 'F.Flags["vip"] || F.Boom(7) > 0', 'true', 'f.Flags["vip"].(bool)'),
    ("interface-typed-bool-as-a-plain-operand", 'F.Flags["vip"] || F.B', 'verif.Or(f.Flags["vip"].(bool), f.B)'),
]
NEG_ASSUME = {t[0]: t[3] for t in neg if len(t) > 3}
neg = [t[:3] for t in neg]

PER = 30
gofile = ['// Code generated by tools/gen_c05.py; DO NOT EDIT.', '', 'package zztier', '', 'import verif "github.com/hyperjumptech/grule-rule-engine/zzverif"', '',
          'type c05Case struct {', '\ttag, rule, text string', '\tkind int // 0 int, 1 float, 2 bool', '\trefI func(f *Fact) int64', '\trefF func(f *Fact) float64', '\trefB func(f *Fact) bool',
          '\tnz   func(f *Fact) bool // the property\'s side condition: divisors are non-zero', '}', '', 'var _ = verif.And', '', 'var c05Cases = [][]c05Case{']
tmpl_n = 0
allc = [(tag, t.kind, text, go(t), t) for tag, t, text in cases] + [(tag, 'bool', text, g, None) for tag, text, g in neg]
for chunk_i in range(0, len(allc), PER):
    chunk = allc[chunk_i:chunk_i + PER]
    rules = []
    gofile.append('\t{')
    for k, (tag, kind, text, goexpr, tree) in enumerate(chunk):
        rule = "E%03d" % (chunk_i + k)
        sink = {'int': 'F.RI', 'float': 'F.RF', 'bool': 'F.RB'}[kind]
        rules.append('rule %s "%s" {\n    when\n        true\n    then\n        %s = %s%s;\n}\n' % (rule, tag.replace('"', "'"), sink, text, "\n        " if "//" in text else ""))
        ds = []
        if tree is not None:
            divisors(tree, ds)
        nz = " && ".join("%s != 0" % go(d) for d in ds) or "true"
        nzgo = "".join("verif.Assume(%s != 0); " % go(d) for d in reversed(ds)) + ("verif.Assume(%s); " % NEG_ASSUME[tag] if tag in NEG_ASSUME else "") + "return true"
        kindn = {'int': 0, 'float': 1, 'bool': 2}[kind]
        ref = {'int': 'refI: func(f *Fact) int64 { return %s }', 'float': 'refF: func(f *Fact) float64 { return %s }', 'bool': 'refB: func(f *Fact) bool { return %s }'}[kind] % goexpr
        gofile.append('\t\t{tag: %s, rule: "%s", text: %s, kind: %d, %s, nz: func(f *Fact) bool { %s }},' % (
            '"' + tag + '"', rule, '"' + text.replace('\\', '\\\\').replace('"', '\\"').replace('\n', '\\n') + '"', kindn, ref, nzgo))
        if kind == 'bool':
            # the same expression as a rule condition
            rules.append('rule %sc "%s as a condition" {\n    when\n        %s\n    then\n        F.RB = true;\n}\n' % (rule, tag.replace('"', "'"), text))
    gofile.append('\t},')
    open(os.path.join(V, "templates", "c05_%d.grl" % tmpl_n), "w").write("\n".join(rules))
    tmpl_n += 1
gofile.append('}')
gofile.append('')
gofile.append('const c05Templates = %d' % tmpl_n)
open(os.path.join(V, "harness", "zztier", "gen_c05.go"), "w").write("\n".join(gofile) + "\n")
print("cases:", len(allc), "templates:", tmpl_n)
