#!/bin/bash
# usage: tools/withpatch.sh <patch.diff> <command...>   (applies the patch to /repo, runs, always reverts)
set -u
P=$1; shift
if ! git -C /repo diff --quiet; then echo "/repo has local changes"; exit 9; fi
git -C /repo apply "$P" || { echo "patch does not apply"; exit 9; }
"$@"; rc=$?
git -C /repo checkout -- . ; git -C /repo clean -fdq
exit $rc
