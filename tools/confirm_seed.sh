#!/bin/bash
# tools/confirm_seed.sh <ID> <m1|m2>  — independently confirms a seeded change delivered under /tmp/seed/<ID>/out/<m>/
# and, when confirmed, copies it to /verif/seeded/<ID>-<m>/ (patch.diff, demo, meta.json with what was run).
set -u
ID=$1; M=$2
ROOT=${SEEDROOT:-/tmp/seed}; TAG=${SEEDTAG:-}
SRC=$ROOT/$ID/out/$M
WT=/tmp/confirm/$ID-$M
export GOFLAGS=-mod=mod GOPROXY=off
unset GOTOOLCHAIN GOSUMDB
rm -rf $WT; mkdir -p /tmp/confirm
git -C /repo worktree add --detach $WT HEAD -q || exit 9
cd $WT
PLACE=$(python3 -c "import json;print(json.load(open('$SRC/meta.json')).get('demo_place_in','').strip('/'))")
[ -z "$PLACE" ] && PLACE=$(head -5 $SRC/demo_test.go | grep -o 'place in: *[a-z/]*' | sed 's/place in: *//;s#/$##')
TEST=$(grep -o 'func TestSeeded[A-Za-z0-9_]*' $SRC/demo_test.go | head -1 | sed 's/func //')
res() { echo "$1" ; }
cp $SRC/demo_test.go $PLACE/zz_seeded_demo_test.go
go test -vet=off -count=1 -run "^$TEST\$" ./$PLACE/ > /tmp/confirm/$ID-$M.clean.log 2>&1; CLEAN=$?
git apply $SRC/patch.diff || { echo "$ID $M: patch does not apply"; cd /; git -C /repo worktree remove --force $WT; exit 1; }
go build ./... > /tmp/confirm/$ID-$M.build.log 2>&1; BUILD=$?
go test -vet=off -count=1 -run "^$TEST\$" ./$PLACE/ > /tmp/confirm/$ID-$M.mut.log 2>&1; MUT=$?
rm -f $PLACE/zz_seeded_demo_test.go
go test -vet=off -count=1 -timeout 25m ./... > /tmp/confirm/$ID-$M.suite.log 2>&1
go test -vet=off -count=1 -skip 'TestGitResource|TestNewURLResource' ./pkg/... >> /tmp/confirm/$ID-$M.suite.log 2>&1
FAILS=$(grep -- "^--- FAIL" /tmp/confirm/$ID-$M.suite.log | grep -v "TestGitResource\|TestNewURLResource" | wc -l)
PKGFAIL=$(grep "^FAIL\s" /tmp/confirm/$ID-$M.suite.log | grep -v "grule-rule-engine/pkg\s" | wc -l)
cd /; git -C /repo worktree remove --force $WT
OK=no
if [ $CLEAN -eq 0 ] && [ $BUILD -eq 0 ] && [ $MUT -ne 0 ] && [ $FAILS -eq 0 ] && [ $PKGFAIL -eq 0 ]; then OK=yes; fi
echo "$ID $M: demo_on_clean_exit=$CLEAN build=$BUILD demo_on_mutant_exit=$MUT suite_unexpected_fails=$FAILS pkgfail=$PKGFAIL confirmed=$OK"
if [ $OK = yes ]; then
  D=/verif/seeded/$ID-$TAG$M; mkdir -p $D
  cp $SRC/patch.diff $D/patch.diff; cp $SRC/demo_test.go $D/demo_test.go
  python3 - <<PY
import json
m=json.load(open('$SRC/meta.json'))
m['confirmed_by_me']={'base_commit':'$(git -C /repo rev-parse --short HEAD)','demo_place_in':'$PLACE','demo_test':'$TEST',
  'ran':['go test -run ^$TEST\$ ./$PLACE/ on the unchanged tree: pass','git apply patch.diff; go build ./...: ok','go test -run ^$TEST\$ ./$PLACE/ with the change: FAIL',
         'go test -vet=off -count=1 ./... with the change: only TestGitResource/TestNewURLResource (no network) fail; pkg re-run with those skipped: ok']}
json.dump(m,open('$D/meta.json','w'),indent=1)
PY
fi
