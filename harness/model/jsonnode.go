package model

import "reflect"

// VerifJSONNode wraps an already decoded JSON tree (map[string]interface{} / []interface{} / float64 / string / bool),
// exactly what NewJSONValueNode builds after json.Unmarshal; the harness uses it to give the tree symbolic leaves.
func VerifJSONNode(tree interface{}, identifiedAs string) ValueNode {
	return &JSONValueNode{parent: nil, identifiedAs: identifiedAs, data: reflect.ValueOf(tree)}
}
