package model

// C04 Tier K — numeric conversion on assignment: SetNumberValue for every (destination kind, source kind) pair,
// payload fully symbolic, assumed representable in the destination as the property says.

import (
	"reflect"

	verif "github.com/hyperjumptech/grule-rule-engine/zzverif"
)

var c04Kinds = []string{"int", "int8", "int16", "int32", "int64", "uint", "uint8", "uint16", "uint32", "uint64", "float32", "float64"}

type c04Src struct {
	fam int // 0 int, 1 uint, 2 float
	i   int64
	u   uint64
	f   float64
	rv  reflect.Value
}

func c04Source(k int) c04Src {
	switch k {
	case 0:
		v := verif.Int("src")
		return c04Src{fam: 0, i: int64(v), rv: reflect.ValueOf(v)}
	case 1:
		v := verif.Int8("src")
		return c04Src{fam: 0, i: int64(v), rv: reflect.ValueOf(v)}
	case 2:
		v := verif.Int16("src")
		return c04Src{fam: 0, i: int64(v), rv: reflect.ValueOf(v)}
	case 3:
		v := verif.Int32("src")
		return c04Src{fam: 0, i: int64(v), rv: reflect.ValueOf(v)}
	case 4:
		v := verif.Int64("src")
		return c04Src{fam: 0, i: v, rv: reflect.ValueOf(v)}
	case 5:
		v := verif.Uint("src")
		return c04Src{fam: 1, u: uint64(v), rv: reflect.ValueOf(v)}
	case 6:
		v := verif.Uint8("src")
		return c04Src{fam: 1, u: uint64(v), rv: reflect.ValueOf(v)}
	case 7:
		v := verif.Uint16("src")
		return c04Src{fam: 1, u: uint64(v), rv: reflect.ValueOf(v)}
	case 8:
		v := verif.Uint32("src")
		return c04Src{fam: 1, u: uint64(v), rv: reflect.ValueOf(v)}
	case 9:
		v := verif.Uint64("src")
		return c04Src{fam: 1, u: v, rv: reflect.ValueOf(v)}
	case 10:
		v := verif.Float32("src")
		return c04Src{fam: 2, f: float64(v), rv: reflect.ValueOf(v)}
	}
	v := verif.Float64("src")
	return c04Src{fam: 2, f: v, rv: reflect.ValueOf(v)}
}

// inSigned: the source value (as a mathematical number; floats truncated toward zero) lies in [lo, hi].
func c04InRange(s c04Src, lo, hi int64, unsignedDst bool, maxU uint64) bool {
	switch s.fam {
	case 0:
		if unsignedDst {
			return verif.And(s.i >= 0, uint64(s.i) <= maxU)
		}
		return verif.And(s.i >= lo, s.i <= hi)
	case 1:
		if unsignedDst {
			return s.u <= maxU
		}
		return s.u <= uint64(hi)
	}
	// float: not NaN and strictly inside the range after truncation; 2^63 / 2^64 bounds are exclusive
	if unsignedDst {
		if maxU == 1<<64-1 {
			return verif.And(s.f > -1, s.f < 18446744073709551616.0)
		}
		return verif.And(s.f > -1, s.f < float64(maxU)+1)
	}
	if hi == 1<<63-1 {
		return verif.And(s.f >= -9223372036854775808.0, s.f < 9223372036854775808.0)
	}
	return verif.And(s.f > float64(lo)-1, s.f < float64(hi)+1)
}

func c04AsInt(s c04Src) int64 {
	switch s.fam {
	case 0:
		return s.i
	case 1:
		return int64(s.u)
	}
	return int64(s.f) // truncation toward zero (Go conversion)
}

func c04AsUint(s c04Src) uint64 {
	switch s.fam {
	case 0:
		return uint64(s.i)
	case 1:
		return s.u
	}
	return uint64(s.f)
}

func c04AsFloat(s c04Src) float64 {
	switch s.fam {
	case 0:
		return float64(s.i)
	case 1:
		return float64(s.u)
	}
	return s.f
}

func VerifC04SetNumber() {
	dk := verif.Choice("dst-kind", len(c04Kinds))
	sk := verif.Choice("src-kind", len(c04Kinds))
	s := c04Source(sk)
	if s.fam == 2 {
		verif.Assume(verif.Not(verif.FloatIsNaN(s.f)))
	}
	tag := "C04:convert(" + c04Kinds[dk] + "<-" + c04Kinds[sk] + "):"
	verif.Reach("c04:kind-pair")
	var err error
	switch dk {
	case 0:
		var d int
		verif.Assume(c04InRange(s, -1<<63, 1<<63-1, false, 0))
		err = SetNumberValue(reflect.ValueOf(&d).Elem(), s.rv)
		verif.Assert(tag+"value", verif.And(err == nil, int64(d) == c04AsInt(s)))
	case 1:
		var d int8
		verif.Assume(c04InRange(s, -128, 127, false, 0))
		err = SetNumberValue(reflect.ValueOf(&d).Elem(), s.rv)
		verif.Assert(tag+"value", verif.And(err == nil, int64(d) == c04AsInt(s)))
	case 2:
		var d int16
		verif.Assume(c04InRange(s, -32768, 32767, false, 0))
		err = SetNumberValue(reflect.ValueOf(&d).Elem(), s.rv)
		verif.Assert(tag+"value", verif.And(err == nil, int64(d) == c04AsInt(s)))
	case 3:
		var d int32
		verif.Assume(c04InRange(s, -2147483648, 2147483647, false, 0))
		err = SetNumberValue(reflect.ValueOf(&d).Elem(), s.rv)
		verif.Assert(tag+"value", verif.And(err == nil, int64(d) == c04AsInt(s)))
	case 4:
		var d int64
		verif.Assume(c04InRange(s, -1<<63, 1<<63-1, false, 0))
		err = SetNumberValue(reflect.ValueOf(&d).Elem(), s.rv)
		verif.Assert(tag+"value", verif.And(err == nil, d == c04AsInt(s)))
	case 5:
		var d uint
		verif.Assume(c04InRange(s, 0, 0, true, 1<<64-1))
		err = SetNumberValue(reflect.ValueOf(&d).Elem(), s.rv)
		verif.Assert(tag+"value", verif.And(err == nil, uint64(d) == c04AsUint(s)))
	case 6:
		var d uint8
		verif.Assume(c04InRange(s, 0, 0, true, 255))
		err = SetNumberValue(reflect.ValueOf(&d).Elem(), s.rv)
		verif.Assert(tag+"value", verif.And(err == nil, uint64(d) == c04AsUint(s)))
	case 7:
		var d uint16
		verif.Assume(c04InRange(s, 0, 0, true, 65535))
		err = SetNumberValue(reflect.ValueOf(&d).Elem(), s.rv)
		verif.Assert(tag+"value", verif.And(err == nil, uint64(d) == c04AsUint(s)))
	case 8:
		var d uint32
		verif.Assume(c04InRange(s, 0, 0, true, 4294967295))
		err = SetNumberValue(reflect.ValueOf(&d).Elem(), s.rv)
		verif.Assert(tag+"value", verif.And(err == nil, uint64(d) == c04AsUint(s)))
	case 9:
		var d uint64
		verif.Assume(c04InRange(s, 0, 0, true, 1<<64-1))
		err = SetNumberValue(reflect.ValueOf(&d).Elem(), s.rv)
		verif.Assert(tag+"value", verif.And(err == nil, d == c04AsUint(s)))
	case 10:
		var d float32
		err = SetNumberValue(reflect.ValueOf(&d).Elem(), s.rv)
		verif.Assert(tag+"value", verif.And(err == nil, verif.SameFloat64(float64(d), float64(float32(c04AsFloat(s))))))
	case 11:
		var d float64
		err = SetNumberValue(reflect.ValueOf(&d).Elem(), s.rv)
		verif.Assert(tag+"value", verif.And(err == nil, verif.SameFloat64(d, c04AsFloat(s))))
	}
	verif.Event("pair", c04Kinds[dk], c04Kinds[sk])
}
