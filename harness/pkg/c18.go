package pkg

// C18 Tier K — malformed JSON rules are rejected with an error; string constants round-trip.
// parseRule / buildExpressionEx / joinOperator / parseOperand run from SSA on rule trees enumerated by Choice.

import (
	"strings"

	verif "github.com/hyperjumptech/grule-rule-engine/zzverif"
)

type c18Bad struct {
	tag  string
	rule GruleJSON
	bad  bool
}

func c18Op(op string, args ...interface{}) map[string]interface{} {
	return map[string]interface{}{op: args}
}

func c18Rules() []c18Bad {
	okThen := []interface{}{c18Op("set", "F.RB", true)}
	okWhen := c18Op("lt", "F.I", "F.J")
	return []c18Bad{
		{"well-formed", GruleJSON{Name: "R", When: okWhen, Then: okThen}, false},
		{"well-formed-string-condition", GruleJSON{Name: "R", When: "F.I < F.J", Then: []interface{}{"F.RB = true"}}, false},
		{"well-formed-call", GruleJSON{Name: "R", When: okWhen, Then: []interface{}{c18Op("call", "Log", map[string]interface{}{"const": "x"})}}, false},
		{"well-formed-call-no-arguments", GruleJSON{Name: "R", When: okWhen, Then: []interface{}{c18Op("call", "Complete")}}, false},
		{"missing-name", GruleJSON{When: okWhen, Then: okThen}, true},
		{"missing-when", GruleJSON{Name: "R", Then: okThen}, true},
		{"missing-then", GruleJSON{Name: "R", When: okWhen}, true},
		{"unknown-operator", GruleJSON{Name: "R", When: c18Op("xor", "F.B", "F.C"), Then: okThen}, true},
		{"unknown-operator-nested", GruleJSON{Name: "R", When: c18Op("and", okWhen, c18Op("nand", "F.B", "F.C")), Then: okThen}, true},
		{"operator-with-no-operands", GruleJSON{Name: "R", When: c18Op("lt"), Then: okThen}, true},
		{"operator-value-not-an-array", GruleJSON{Name: "R", When: map[string]interface{}{"lt": "F.I"}, Then: okThen}, true},
		{"and-with-one-operand", GruleJSON{Name: "R", When: c18Op("and", okWhen), Then: okThen}, true},
		{"and-with-non-object-operand", GruleJSON{Name: "R", When: c18Op("and", okWhen, "F.B"), Then: okThen}, true},
		{"two-operators-in-one-object", GruleJSON{Name: "R", When: map[string]interface{}{"lt": []interface{}{"F.I", "F.J"}, "gt": []interface{}{"F.I", "F.J"}}, Then: okThen}, true},
		{"empty-object", GruleJSON{Name: "R", When: map[string]interface{}{}, Then: okThen}, true},
		{"set-with-one-operand", GruleJSON{Name: "R", When: okWhen, Then: []interface{}{c18Op("set", "F.RB")}}, true},
		{"set-with-three-operands", GruleJSON{Name: "R", When: okWhen, Then: []interface{}{c18Op("set", "F.RB", true, false)}}, true},
		{"call-without-name", GruleJSON{Name: "R", When: okWhen, Then: []interface{}{c18Op("call")}}, true},
		{"call-name-not-a-string", GruleJSON{Name: "R", When: okWhen, Then: []interface{}{c18Op("call", 3.0)}}, true},
		{"obj-not-a-string", GruleJSON{Name: "R", When: c18Op("lt", map[string]interface{}{"obj": 3.0}, "F.J"), Then: okThen}, true},
		{"const-of-unsupported-type", GruleJSON{Name: "R", When: c18Op("lt", map[string]interface{}{"const": []interface{}{1.0}}, "F.J"), Then: okThen}, true},
		{"operand-of-unsupported-type", GruleJSON{Name: "R", When: c18Op("lt", []interface{}{1.0}, "F.J"), Then: okThen}, true},
		{"when-of-unsupported-type", GruleJSON{Name: "R", When: 3.0, Then: okThen}, true},
		{"then-item-of-unsupported-type", GruleJSON{Name: "R", When: okWhen, Then: []interface{}{3.0}}, true},
	}
}

func VerifC18Malformed() {
	rs := c18Rules()
	c := rs[verif.Choice("rule", len(rs))]
	verif.Reach("c18:malformed-case")
	var out string
	var err error
	panicked := false
	func() {
		defer func() {
			if r := recover(); r != nil {
				panicked = true
			}
		}()
		out, err = ParseRule(&c.rule)
	}()
	verif.Assert("C20:json-rule-translator-does-not-panic:"+c.tag, !panicked)
	if panicked {
		return
	}
	if c.bad {
		verif.Assert("C18:malformed-rule-is-rejected:"+c.tag, err != nil)
	} else {
		verif.Assert("C18:well-formed-rule-is-accepted:"+c.tag, err == nil && strings.HasPrefix(out, "rule R "))
	}
	verif.Event("case", c.tag, err != nil)
}

// VerifC18Nesting: the depth guard bounds the recursion on deeply nested input (C20: no stack exhaustion).
func VerifC18Nesting(depth int) {
	var w interface{} = "F.B"
	for i := 0; i < depth; i++ {
		w = c18Op("and", c18Op("eq", w, true), c18Op("eq", "F.C", true))
	}
	r := GruleJSON{Name: "R", When: w, Then: []interface{}{"F.RB = true"}}
	_, err := ParseRule(&r)
	verif.Reach("c18:nesting")
	verif.Assert("C20:json-nesting-is-bounded-or-translated", err == nil || strings.Contains(err.Error(), "nesting"))
}

// ---------------------------------------------------------------- C20: JSON rule TEXT (structure-aware corpus)

var c20JSONTexts = []string{
	"", " ", "\n\t ", "[", "{", "]", "x", "null", "[]", "{}", "[null]", "[{}]", "[[]]", "[1]", "[\"a\"]", "{\"name\":1}",
	"{\"name\":\"R\"}", "{\"name\":\"R\",\"when\":null,\"then\":null}", "{\"name\":\"R\",\"when\":\"true\",\"then\":[]}",
	"{\"name\":\"R\",\"when\":\"true\",\"then\":[null]}", "{\"name\":\"R\",\"when\":{\"and\":null},\"then\":[\"x\"]}",
	"{\"name\":\"R\",\"when\":{\"and\":[null,null]},\"then\":[\"x\"]}", "{\"name\":\"R\",\"when\":{\"eq\":[null,null]},\"then\":[\"x\"]}",
	"{\"name\":\"R\",\"when\":{\"eq\":[{\"obj\":null},{\"const\":null}]},\"then\":[\"x\"]}",
	"{\"name\":\"R\",\"when\":\"true\",\"then\":[{\"call\":[null]}]}", "{\"name\":\"R\",\"when\":\"true\",\"then\":[{\"set\":[null,null]}]}",
	"{\"name\":\"R\",\"when\":\"true\",\"then\":[{\"call\":[\"Log\",null]}]}",
	"[{\"name\":\"R\",\"when\":\"true\",\"then\":[\"x\"]},null]", "[null,{\"name\":\"R\",\"when\":\"true\",\"then\":[\"x\"]}]",
	"{\"name\":\"R\",\"salience\":1e400,\"when\":\"true\",\"then\":[\"x\"]}", "{\"name\":\"R\",\"salience\":1.5,\"when\":\"true\",\"then\":[\"x\"]}",
	"{\"NAME\":\"R\",\"When\":\"true\",\"THEN\":[\"x\"]}", "{\"name\":\"R\",\"when\":\"true\",\"then\":\"x\"}",
}

type c20Res struct{ data []byte }

func (r *c20Res) Load() ([]byte, error) { return r.data, nil }
func (r *c20Res) String() string        { return "harness resource" }

// VerifC20JSONText: JSONResource.Load on a structure-aware corpus of JSON rule texts (and fragments) must return a
// result or an error, never panic. (The texts are concrete: encoding/json is not encoded for symbolic bytes.)
func VerifC20JSONText() {
	txt := c20JSONTexts[verif.Choice("text", len(c20JSONTexts))]
	res, _ := NewJSONResourceFromResource(&c20Res{data: []byte(txt)})
	verif.Reach("c20:json-text")
	panicked := false
	var err error
	var out []byte
	func() {
		defer func() {
			if r := recover(); r != nil {
				panicked = true
			}
		}()
		out, err = res.Load()
	}()
	verif.Assert("C20:json-rule-loader-does-not-panic", !panicked)
	if !panicked {
		verif.Assert("C20:json-rule-loader-returns-a-result-or-an-error", (err != nil) != (out != nil))
	}
	verif.Event("text", len(txt), panicked, err != nil)
}
