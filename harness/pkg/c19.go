package pkg

// C19 — comparison operators are mutually consistent across operand kinds (Tier K).
//
// Both operands are fully symbolic (all 2^w payloads per kind); the kind pair and the
// operand shape (plain, behind pointers / interfaces) are enumerated by Choice.

import (
	"reflect"
	"time"
	"unsafe"

	verif "github.com/hyperjumptech/grule-rule-engine/zzverif"
)

var c19KindNames = []string{"int", "int8", "int16", "int32", "int64", "uint", "uint8", "uint16", "uint32", "uint64", "float32", "float64"}

const (
	c19FamInt = iota
	c19FamUint
	c19FamFloat
)

type c19Num struct {
	fam int
	i   int64
	u   uint64
	f   float64
}

type c19Box struct {
	I interface{}
}

// c19Wrap puts a value (given as interface holding T, and as pointer to T) into the requested shape.
func c19Wrap(shape int, v interface{}, pv interface{}, ppv interface{}) reflect.Value {
	switch shape {
	case 0: // T
		return reflect.ValueOf(v)
	case 1: // *T
		return reflect.ValueOf(pv)
	case 2: // interface{}(T) seen as a Value of Kind Interface
		b := &c19Box{I: v}
		return reflect.ValueOf(b).Elem().Field(0)
	case 3: // *interface{}(T)
		e := v
		return reflect.ValueOf(&e)
	case 4: // interface{}(*T)
		b := &c19Box{I: pv}
		return reflect.ValueOf(b).Elem().Field(0)
	case 5: // **T
		return reflect.ValueOf(ppv)
	}
	panic("bad shape")
}

const c19Shapes = 6

func c19Operand(side string, k, shape int) (reflect.Value, c19Num) {
	switch k {
	case 0:
		v := verif.Int(side)
		p := &v
		return c19Wrap(shape, v, p, &p), c19Num{fam: c19FamInt, i: int64(v)}
	case 1:
		v := verif.Int8(side)
		p := &v
		return c19Wrap(shape, v, p, &p), c19Num{fam: c19FamInt, i: int64(v)}
	case 2:
		v := verif.Int16(side)
		p := &v
		return c19Wrap(shape, v, p, &p), c19Num{fam: c19FamInt, i: int64(v)}
	case 3:
		v := verif.Int32(side)
		p := &v
		return c19Wrap(shape, v, p, &p), c19Num{fam: c19FamInt, i: int64(v)}
	case 4:
		v := verif.Int64(side)
		p := &v
		return c19Wrap(shape, v, p, &p), c19Num{fam: c19FamInt, i: v}
	case 5:
		v := verif.Uint(side)
		p := &v
		return c19Wrap(shape, v, p, &p), c19Num{fam: c19FamUint, u: uint64(v)}
	case 6:
		v := verif.Uint8(side)
		p := &v
		return c19Wrap(shape, v, p, &p), c19Num{fam: c19FamUint, u: uint64(v)}
	case 7:
		v := verif.Uint16(side)
		p := &v
		return c19Wrap(shape, v, p, &p), c19Num{fam: c19FamUint, u: uint64(v)}
	case 8:
		v := verif.Uint32(side)
		p := &v
		return c19Wrap(shape, v, p, &p), c19Num{fam: c19FamUint, u: uint64(v)}
	case 9:
		v := verif.Uint64(side)
		p := &v
		return c19Wrap(shape, v, p, &p), c19Num{fam: c19FamUint, u: v}
	case 10:
		v := verif.Float32(side)
		p := &v
		return c19Wrap(shape, v, p, &p), c19Num{fam: c19FamFloat, f: float64(v)}
	case 11:
		v := verif.Float64(side)
		p := &v
		return c19Wrap(shape, v, p, &p), c19Num{fam: c19FamFloat, f: v}
	}
	panic("bad kind")
}

// c19Ref is the reference semantics of DESIGN Appendix C: integers compare as
// mathematical integers (unsigned operands assumed <= MaxInt64), a float operand
// makes both sides doubles.
func c19Ref(a, b c19Num) (lt, eq bool) {
	if a.fam == c19FamFloat || b.fam == c19FamFloat {
		af, bf := c19ToFloat(a), c19ToFloat(b)
		return af < bf, af == bf
	}
	ai, bi := c19ToInt(a), c19ToInt(b)
	return ai < bi, ai == bi
}

func c19ToFloat(a c19Num) float64 {
	switch a.fam {
	case c19FamInt:
		return float64(a.i)
	case c19FamUint:
		return float64(a.u)
	}
	return a.f
}

func c19ToInt(a c19Num) int64 {
	if a.fam == c19FamUint {
		return int64(a.u)
	}
	return a.i
}

type c19Six struct {
	gt, lt, ge, le, eq, ne bool
	ok                     bool // all six returned a bool without error
}

func c19Eval(tag string, l, r reflect.Value) c19Six {
	var s c19Six
	s.ok = true
	one := func(name string, f func(a, b reflect.Value) (reflect.Value, error)) bool {
		v, err := f(l, r)
		if err != nil || !v.IsValid() || v.Kind() != reflect.Bool {
			s.ok = false
			verif.Assert("C19:"+tag+":"+name+":no-error-within-family", false)
			return false
		}
		return v.Bool()
	}
	s.gt = one("gt", EvaluateGreaterThan)
	s.lt = one("lt", EvaluateLesserThan)
	s.ge = one("ge", EvaluateGreaterThanEqual)
	s.le = one("le", EvaluateLesserThanEqual)
	s.eq = one("eq", EvaluateEqual)
	s.ne = one("ne", EvaluateNotEqual)
	return s
}

func c19Consistency(tag string, s, m c19Six, ordered bool) {
	if !s.ok || !m.ok {
		return
	}
	verif.Assert("C19:"+tag+":ne-is-not-eq", verif.Iff(s.ne, verif.Not(s.eq)))
	verif.Assert("C19:"+tag+":mirror-eq", verif.Iff(s.eq, m.eq))
	verif.Assert("C19:"+tag+":mirror-ne", verif.Iff(s.ne, m.ne))
	if !ordered {
		return
	}
	one := verif.Or(verif.Or(verif.And(s.lt, verif.And(verif.Not(s.eq), verif.Not(s.gt))),
		verif.And(s.eq, verif.And(verif.Not(s.lt), verif.Not(s.gt)))),
		verif.And(s.gt, verif.And(verif.Not(s.lt), verif.Not(s.eq))))
	verif.Assert("C19:"+tag+":exactly-one-of-lt-eq-gt", one)
	verif.Assert("C19:"+tag+":le-is-lt-or-eq", verif.Iff(s.le, verif.Or(s.lt, s.eq)))
	verif.Assert("C19:"+tag+":ge-is-gt-or-eq", verif.Iff(s.ge, verif.Or(s.gt, s.eq)))
	verif.Assert("C19:"+tag+":mirror-lt-gt", verif.Iff(s.lt, m.gt))
	verif.Assert("C19:"+tag+":mirror-gt-lt", verif.Iff(s.gt, m.lt))
	verif.Assert("C19:"+tag+":mirror-le-ge", verif.Iff(s.le, m.ge))
	verif.Assert("C19:"+tag+":mirror-ge-le", verif.Iff(s.ge, m.le))
}

// VerifC19Num checks every ordered pair of numeric kinds. shapes: how many operand shapes
// (1 = plain values only ... 6 = all of T, *T, interface{T}, *interface{T}, interface{*T}, **T).
func VerifC19Num(shapes int) {
	lk := verif.Choice("left-kind", len(c19KindNames))
	rk := verif.Choice("right-kind", len(c19KindNames))
	ls, rs := 0, 0
	if shapes > 1 {
		ls = verif.Choice("left-shape", shapes)
		rs = verif.Choice("right-shape", shapes)
		if ls != 0 && rs != 0 && ls != rs {
			verif.Stop("shape pairs: one side plain, or both sides the same shape")
		}
	}
	l, ln := c19Operand("L", lk, ls)
	r, rn := c19Operand("R", rk, rs)
	// the property's domain: NaN excluded, unsigned operands within the int64 range
	if ln.fam == c19FamFloat {
		verif.Assume(verif.Not(verif.FloatIsNaN(ln.f)))
	}
	if rn.fam == c19FamFloat {
		verif.Assume(verif.Not(verif.FloatIsNaN(rn.f)))
	}
	if ln.fam == c19FamUint {
		verif.Assume(ln.u <= 1<<63-1)
	}
	if rn.fam == c19FamUint {
		verif.Assume(rn.u <= 1<<63-1)
	}
	tag := c19KindNames[lk] + "," + c19KindNames[rk]
	if ls != 0 || rs != 0 {
		tag += ":shape" + string(rune('0'+ls)) + string(rune('0'+rs))
	}
	verif.Reach("C19:num-pair")
	s := c19Eval(tag, l, r)
	m := c19Eval(tag+":swapped", r, l)
	c19Consistency(tag, s, m, true)
	if s.ok {
		// kind independence: the outcome is the one the numeric values prescribe
		lt, eq := c19Ref(ln, rn)
		verif.Assert("C19:"+tag+":lt-by-value", verif.Iff(s.lt, lt))
		verif.Assert("C19:"+tag+":eq-by-value", verif.Iff(s.eq, eq))
		verif.Assert("C19:"+tag+":gt-by-value", verif.Iff(s.gt, verif.And(verif.Not(lt), verif.Not(eq))))
	}
	verif.Event("pair", tag, s.lt, s.eq, s.gt, s.le, s.ge, s.ne)
}

// VerifC19Bool: == and != on booleans.
func VerifC19Bool() {
	a, b := verif.Bool("L"), verif.Bool("R")
	for _, sh := range [][2]int{{0, 0}, {1, 0}, {0, 2}, {4, 4}} {
		pa, pb := &a, &b
		l := c19Wrap(sh[0], a, pa, &pa)
		r := c19Wrap(sh[1], b, pb, &pb)
		tag := "bool:shape" + string(rune('0'+sh[0])) + string(rune('0'+sh[1]))
		eq, err1 := EvaluateEqual(l, r)
		ne, err2 := EvaluateNotEqual(l, r)
		eqm, err3 := EvaluateEqual(r, l)
		verif.Assert("C19:"+tag+":no-error-within-family", err1 == nil && err2 == nil && err3 == nil)
		if err1 != nil || err2 != nil || err3 != nil {
			continue
		}
		verif.Assert("C19:"+tag+":eq-by-value", verif.Iff(eq.Bool(), a == b))
		verif.Assert("C19:"+tag+":ne-is-not-eq", verif.Iff(ne.Bool(), verif.Not(eq.Bool())))
		verif.Assert("C19:"+tag+":mirror-eq", verif.Iff(eq.Bool(), eqm.Bool()))
	}
	verif.Reach("C19:bool")
}

// VerifC19Time: time.Time operands. wall/ext are symbolic under time's representation
// invariant; loc ranges over {nil(UTC), &utcLoc-like, a fixed zone}. After/Before/Equal run
// from the standard library's own SSA.
type c19MonoInfo struct{ sec, nsec, mono int64 }

var c19Mono = map[string]*c19MonoInfo{}

// rawTime mirrors the layout of time.Time (wall, ext, loc).
type c19RawTime struct {
	wall uint64
	ext  int64
	loc  *time.Location
}

// c19WithMonotonic re-encodes t the way time.Now() does: hasMonotonic | seconds since 1885 << 30 | nanoseconds, ext = the
// monotonic reading.
func c19WithMonotonic(t time.Time, sec, nsec, mono int64) time.Time {
	const wallToUnix = 2682374400 // seconds from 1885-01-01 to 1970-01-01
	r := (*c19RawTime)(unsafe.Pointer(&t))
	r.wall = 1<<63 | uint64(sec+wallToUnix)<<30 | uint64(nsec)
	r.ext = mono
	return t
}

func VerifC19Time() {
	c19Mono = map[string]*c19MonoInfo{}
	a := c19Time("L")
	b := c19Time("R")
	if l, r := c19Mono["L"], c19Mono["R"]; l != nil && r != nil {
		// two readings of one process: the monotonic difference is the wall-clock difference (same second, to keep the
		// arithmetic linear)
		verif.Assume(verif.And(l.sec == r.sec, l.mono-r.mono == l.nsec-r.nsec))
		verif.Reach("C19:time:both-monotonic")
	} else if l != nil || r != nil {
		verif.Reach("C19:time:one-monotonic")
	}
	l, r := reflect.ValueOf(a), reflect.ValueOf(b)
	verif.Reach("C19:time")
	s := c19Eval("time", l, r)
	m := c19Eval("time:swapped", r, l)
	c19Consistency("time", s, m, true)
	if s.ok {
		verif.Assert("C19:time:eq-by-instant", verif.Iff(s.eq, a.Equal(b)))
		verif.Assert("C19:time:lt-by-instant", verif.Iff(s.lt, a.Before(b)))
		verif.Assert("C19:time:gt-by-instant", verif.Iff(s.gt, a.After(b)))
	}
}

var c19Zone = time.FixedZone("X", 3600)

func c19Time(side string) time.Time {
	sec := verif.Int64(side + ".sec")
	nsec := verif.Int64(side + ".nsec")
	// instants within +-2000 years of 1970 with any nanosecond (far beyond what fits int64 nanoseconds): time.Unix normalises
	verif.Assume(verif.And(sec > -62000000000, sec < 62000000000))
	verif.Assume(verif.And(nsec >= 0, nsec < 1000000000))
	t := time.Unix(sec, nsec)
	if verif.Choice(side+".monotonic", 2) == 1 {
		// a value as time.Now() returns it: wall clock AND monotonic reading (encodable for 1885..2157 only)
		verif.Assume(verif.And(sec > -2000000000, sec < 5000000000))
		mono := verif.Int64(side + ".mono")
		verif.Assume(verif.And(mono > 0, mono < 1000000000000000))
		t = c19WithMonotonic(t, sec, nsec, mono)
		c19Mono[side] = &c19MonoInfo{sec: sec, nsec: nsec, mono: mono}
	}
	switch verif.Choice(side+".loc", 3) {
	case 0:
		return t.UTC()
	case 1:
		return t.In(c19Zone)
	}
	return t // Local
}

// VerifC19Str: the string family. Operands are byte-array strings of every length pair up to maxLen with fully symbolic
// bytes (also behind a pointer / an interface on the left side); the outcome must be Go's lexicographic byte order.
func VerifC19Str(maxLen int) {
	la := verif.Choice("left-len", maxLen+1)
	lb := verif.Choice("right-len", maxLen+1)
	a := string(verif.Bytes("L", la))
	b := string(verif.Bytes("R", lb))
	var l reflect.Value
	switch verif.Choice("left-shape", 3) {
	case 0:
		l = reflect.ValueOf(a)
	case 1:
		l = reflect.ValueOf(&a)
	default:
		var i interface{} = a
		l = reflect.ValueOf(&i).Elem()
	}
	r := reflect.ValueOf(b)
	verif.Reach("C19:string")
	s := c19Eval("string", l, r)
	m := c19Eval("string:swapped", r, l)
	c19Consistency("string", s, m, true)
	if s.ok {
		verif.Assert("C19:string:eq-by-value", verif.Iff(s.eq, a == b))
		verif.Assert("C19:string:lt-by-value", verif.Iff(s.lt, a < b))
		verif.Assert("C19:string:gt-by-value", verif.Iff(s.gt, a > b))
	}
}
