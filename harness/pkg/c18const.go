package pkg

// VerifConstLiteral exposes the translator's rendering of {"const": s} to the round-trip harness in package antlr.
func VerifConstLiteral(s string) (string, error) {
	r, _, err := buildExpressionEx(map[string]interface{}{"const": s}, 0)
	return r, err
}
