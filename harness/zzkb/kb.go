// Package zzkb is the native prefix of the Tier B / Tier C checks: it builds knowledge bases with the
// REAL builder (parser, listener, IndexVariables) and dumps the resulting *ast.KnowledgeLibrary as a
// JSON heap image that gosym imports (zzverif.LoadImage). It is compiled on every check run
// against /repo's current working tree (go build -overlay places it at <module>/zzkbdump).
//
// <template> is a .grl file (built into knowledge base "T" version "1") or a .recipe.json file:
//
//	{"steps":[{"op":"build","grl":"..."},{"op":"buildjson","json":"..."},{"op":"remove","rule":"A"},
//	          {"op":"kb-remove","rule":"A"}, {"op":"build","kb":"U","grl":"..."}]}
package zzkb

import (
	"encoding/json"
	"fmt"
	"os"
	"reflect"
	"sort"
	"strings"
	"unsafe"

	"github.com/hyperjumptech/grule-rule-engine/ast"
	"github.com/hyperjumptech/grule-rule-engine/builder"
	"github.com/hyperjumptech/grule-rule-engine/pkg"
)

type J = map[string]interface{}

type dumper struct {
	ids     map[uintptr]int
	objects []J
}

func typeName(t reflect.Type) string {
	if t.PkgPath() != "" {
		return t.PkgPath() + "." + t.Name()
	}
	return t.String()
}

func (d *dumper) val(v reflect.Value) interface{} {
	if !v.IsValid() {
		return nil
	}
	if v.CanAddr() && !v.CanInterface() {
		v = reflect.NewAt(v.Type(), unsafe.Pointer(v.UnsafeAddr())).Elem()
	}
	switch v.Kind() {
	case reflect.Ptr:
		if v.IsNil() {
			return nil
		}
		p := v.Pointer()
		id, ok := d.ids[p]
		if !ok {
			id = len(d.objects)
			d.ids[p] = id
			d.objects = append(d.objects, nil)
			d.objects[id] = J{"t": typeName(v.Type().Elem()), "v": d.val(v.Elem())}
		}
		return J{"k": "ptr", "id": id}
	case reflect.Interface:
		if v.IsNil() {
			return nil
		}
		e := v.Elem()
		dyn := typeName(e.Type())
		if e.Kind() == reflect.Ptr {
			dyn = "*" + typeName(e.Type().Elem())
		}
		return J{"k": "iface", "dyn": dyn, "v": d.val(e)}
	case reflect.Struct:
		if v.Type() == reflect.TypeOf(reflect.Value{}) {
			var rv reflect.Value
			if v.CanAddr() {
				rv = *(*reflect.Value)(unsafe.Pointer(v.UnsafeAddr()))
			} else {
				rv = v.Interface().(reflect.Value)
			}
			if !rv.IsValid() {
				return J{"k": "rv", "valid": false}
			}
			return J{"k": "rv", "valid": true, "t": typeName(rv.Type()), "v": d.val(rv)}
		}
		f := J{}
		for i := 0; i < v.NumField(); i++ {
			fv := v.Field(i)
			if !fv.CanAddr() {
				c := reflect.New(v.Type()).Elem()
				c.Set(v)
				fv = c.Field(i)
			}
			f[v.Type().Field(i).Name] = d.val(fv)
		}
		return J{"k": "struct", "f": f}
	case reflect.Map:
		if v.IsNil() {
			return nil
		}
		keys := v.MapKeys()
		// deterministic order: by string key, or by the snapshot / name of pointer keys
		desc := func(k reflect.Value) string {
			if k.Kind() == reflect.String {
				return k.String()
			}
			if k.CanInterface() {
				if s, ok := k.Interface().(interface{ GetSnapshot() string }); ok {
					return s.GetSnapshot()
				}
			}
			return fmt.Sprint(k.Interface())
		}
		sort.SliceStable(keys, func(i, j int) bool { return desc(keys[i]) < desc(keys[j]) })
		es := []interface{}{}
		for _, k := range keys {
			es = append(es, []interface{}{d.val(k), d.val(v.MapIndex(k))})
		}
		return J{"k": "map", "e": es}
	case reflect.Slice:
		if v.IsNil() {
			return nil
		}
		fallthrough
	case reflect.Array:
		es := []interface{}{}
		for i := 0; i < v.Len(); i++ {
			es = append(es, d.val(v.Index(i)))
		}
		return J{"k": "seq", "e": es}
	case reflect.String:
		return J{"k": "s", "v": v.String()}
	case reflect.Bool:
		return J{"k": "b", "v": v.Bool()}
	case reflect.Int, reflect.Int8, reflect.Int16, reflect.Int32, reflect.Int64:
		return J{"k": "i", "v": fmt.Sprint(v.Int())}
	case reflect.Uint, reflect.Uint8, reflect.Uint16, reflect.Uint32, reflect.Uint64, reflect.Uintptr:
		return J{"k": "u", "v": fmt.Sprint(v.Uint())}
	case reflect.Float32, reflect.Float64:
		return J{"k": "f", "v": fmt.Sprintf("%x", v.Float())}
	case reflect.UnsafePointer, reflect.Func, reflect.Chan:
		return nil
	}
	panic("unsupported kind " + v.Kind().String())
}

type step struct {
	Op   string `json:"op"`
	KB   string `json:"kb"`
	Ver  string `json:"ver"`
	Grl  string `json:"grl"`
	JSON string `json:"json"`
	Rule string `json:"rule"`
	// ExpectError: the step is expected to be rejected (e.g. duplicate rule name)
	ExpectError bool `json:"expect_error"`
	// RecordError: a rejection is recorded in the log and the run continues (the harness then misses the rule)
	RecordError bool `json:"record_error"`
}

// TemplateDir is where templates are read from natively.
func TemplateDir() string {
	if d := os.Getenv("VERIF_TEMPLATES"); d != "" {
		return d
	}
	return "/verif/templates"
}

// LoadLibrary returns the library described by template `name` (file name without extension).
// Natively it is built by the real builder; under gosym this function is intercepted and the
// heap image produced by kbdump from the same template is imported instead.
func LoadLibrary(name string) *ast.KnowledgeLibrary {
	for _, ext := range []string{".grl", ".recipe.json"} {
		p := TemplateDir() + "/" + name + ext
		if _, err := os.Stat(p); err == nil {
			lib, _, err := RunTemplate(p)
			if err != nil {
				panic(err)
			}
			return lib
		}
	}
	panic("zzkb: no template " + name)
}

// StepLog returns "<op>:<rejected?>" for every step of the template's recipe (natively by re-running it; under gosym
// from the heap image).
func StepLog(name string) []string {
	for _, ext := range []string{".grl", ".recipe.json"} {
		p := TemplateDir() + "/" + name + ext
		if _, err := os.Stat(p); err == nil {
			_, log, err := RunTemplate(p)
			if err != nil {
				panic(err)
			}
			return log
		}
	}
	panic("zzkb: no template " + name)
}

// RunTemplate builds the library of a template file with the real builder.
func RunTemplate(path string) (*ast.KnowledgeLibrary, []string, error) {
	src, err := os.ReadFile(path)
	if err != nil {
		return nil, nil, err
	}
	var steps []step
	if strings.HasSuffix(path, ".json") {
		var r struct {
			Steps []step `json:"steps"`
		}
		if err := json.Unmarshal(src, &r); err != nil {
			return nil, nil, fmt.Errorf("recipe: %v", err)
		}
		steps = r.Steps
	} else {
		steps = []step{{Op: "build", Grl: string(src)}}
	}
	lib := ast.NewKnowledgeLibrary()
	rb := builder.NewRuleBuilder(lib)
	var log []string
	for i, s := range steps {
		kb, ver := s.KB, s.Ver
		if kb == "" {
			kb = "T"
		}
		if ver == "" {
			ver = "1"
		}
		var err error
		switch s.Op {
		case "build":
			err = rb.BuildRuleFromResource(kb, ver, pkg.NewBytesResource([]byte(s.Grl)))
		case "buildjson":
			var res pkg.Resource
			res, err = pkg.NewJSONResourceFromResource(pkg.NewBytesResource([]byte(s.JSON)))
			if err == nil {
				err = rb.BuildRuleFromResource(kb, ver, res)
			}
		case "remove":
			lib.RemoveRuleEntry(s.Rule, kb, ver)
		case "kb-remove":
			lib.GetKnowledgeBase(kb, ver).RemoveRuleEntry(s.Rule)
		default:
			return nil, nil, fmt.Errorf("unknown op %s", s.Op)
		}
		if (err != nil) != s.ExpectError && !s.RecordError {
			return nil, nil, fmt.Errorf("step %d (%s): error=%v but expect_error=%v", i, s.Op, err, s.ExpectError)
		}
		log = append(log, fmt.Sprintf("%s:%v", s.Op, err != nil))
	}
	return lib, log, nil
}

// Dump writes the heap image of lib.
func Dump(lib *ast.KnowledgeLibrary, log []string, out string) error {
	d := &dumper{ids: map[uintptr]int{}}
	root := d.val(reflect.ValueOf(lib))
	f, err := os.Create(out)
	if err != nil {
		return err
	}
	defer f.Close()
	return json.NewEncoder(f).Encode(J{"root": root, "objects": d.objects, "steps": log})
}
