package ast

// Tier A stubs. The overlay renames the real (*WhenScope).Evaluate and (*ThenScope).Execute
// to ...VerifOrig; these replacements delegate to hooks installed by the harness (and fall
// through to the real code when no hook is set).

import "reflect"

var VerifWhenHook func(e *WhenScope, dataContext IDataContext, memory *WorkingMemory) (reflect.Value, error)
var VerifThenHook func(e *ThenScope, dataContext IDataContext, memory *WorkingMemory) error

func (e *WhenScope) Evaluate(dataContext IDataContext, memory *WorkingMemory) (reflect.Value, error) {
	if VerifWhenHook != nil {
		return VerifWhenHook(e, dataContext, memory)
	}
	return e.EvaluateVerifOrig(dataContext, memory)
}

func (e *ThenScope) Execute(dataContext IDataContext, memory *WorkingMemory) error {
	if VerifThenHook != nil {
		return VerifThenHook(e, dataContext, memory)
	}
	return e.ExecuteVerifOrig(dataContext, memory)
}
