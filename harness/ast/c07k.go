package ast

// Tier K for C07 (a): string constants that differ in any character never share a snapshot, and a string constant's
// snapshot cannot end early or imitate structure. Constant.GetSnapshot (with strconv.Quote from its own SSA) runs on two
// byte-array strings of every length pair up to maxLen with fully symbolic bytes.

import (
	"reflect"

	verif "github.com/hyperjumptech/grule-rule-engine/zzverif"
)

func VerifC07StringConstants(maxLen int, asciiOnly int) {
	la := verif.Choice("left-len", maxLen+1)
	lb := verif.Choice("right-len", maxLen+1)
	ba, bb := verif.Bytes("L", la), verif.Bytes("R", lb)
	if asciiOnly != 0 {
		for _, c := range ba {
			verif.Assume(c < 0x80)
		}
		for _, c := range bb {
			verif.Assume(c < 0x80)
		}
	}
	a, b := string(ba), string(bb)
	ca := &Constant{Value: reflect.ValueOf(a)}
	cb := &Constant{Value: reflect.ValueOf(b)}
	sa, sb := ca.GetSnapshot(), cb.GetSnapshot()
	verif.Reach("c07:string-constants")
	verif.Assert("C07:string-constants-that-differ-have-different-snapshots", verif.Implies(a != b, sa != sb))
	verif.Assert("C07:equal-string-constants-have-equal-snapshots", verif.Implies(a == b, sa == sb))
	// the payload sits between C(string->" and the final "): no unescaped quote inside (it could end the payload early
	// and let the rest imitate other nodes)
	const pre = len(`C(string->"`)
	if len(sa) >= pre+2 {
		inner := sa[pre : len(sa)-2]
		ok := true
		for i := 0; i < len(inner); i++ {
			if inner[i] == '"' && (i == 0 || inner[i-1] != '\\') {
				ok = false
			}
		}
		verif.Assert("C07:string-constant-payload-has-no-bare-quote", ok)
	}
	// a string constant never collides with a constant of another kind
	ci := &Constant{Value: reflect.ValueOf(int64(1))}
	cf := &Constant{Value: reflect.ValueOf(1.0)}
	ct := &Constant{Value: reflect.ValueOf(true)}
	verif.Assert("C07:string-constant-differs-from-number-and-bool-constants", sa != ci.GetSnapshot() && sa != cf.GetSnapshot() && sa != ct.GetSnapshot())
}
