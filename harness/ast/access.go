package ast

// Read access to the working memory's node tables for the inductive-memo harness (overlay only).

func (workingMem *WorkingMemory) VerifExpressions() map[string]*Expression {
	return workingMem.expressionSnapshotMap
}

func (workingMem *WorkingMemory) VerifAtoms() map[string]*ExpressionAtom {
	return workingMem.expressionAtomSnapshotMap
}
