package ast

// Tier K: the salience literal (C03 / C20). The literal is a fully symbolic int64.

import (
	verif "github.com/hyperjumptech/grule-rule-engine/zzverif"
)

func VerifSalienceLiteral() {
	v := verif.Int64("literal")
	sal := NewSalience(0)
	panicked := false
	func() {
		defer func() {
			if r := recover(); r != nil {
				panicked = true
			}
		}()
		sal.AcceptIntegerLiteral(&IntegerLiteral{Integer: v})
	}()
	inRange := verif.And(v >= -2147483648, v <= 2147483647)
	verif.Reach("salience:literal-processed")
	if !panicked {
		verif.Assert("C03:salience-in-range-literal-stored-exactly", verif.Implies(inRange, int64(sal.SalienceValue) == v))
		verif.Assert("C03:salience-out-of-range-literal-not-stored-silently", inRange)
		re := NewRuleEntry()
		err := re.AcceptSalience(sal)
		verif.Assert("C03:salience-reaches-the-rule-entry", verif.And(err == nil, verif.Implies(inRange, int64(re.Salience) == v)))
	} else {
		verif.Assert("C03:salience-in-range-literal-accepted", verif.Not(inRange))
	}
	verif.Assert("C20:salience-literal-handled-without-panic", !panicked)
}
