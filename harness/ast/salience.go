package ast

// Tier K: the salience literal (C03 / C20). The literal is a fully symbolic int64.

import (
	verif "github.com/hyperjumptech/grule-rule-engine/zzverif"
)

func VerifSalienceLiteral() {
	v := verif.Int64("literal")
	sal := NewSalience(0)
	panicked := false
	func() {
		defer func() {
			if r := recover(); r != nil {
				panicked = true
			}
		}()
		sal.AcceptIntegerLiteral(&IntegerLiteral{Integer: v})
	}()
	inRange := verif.And(v >= -2147483648, v <= 2147483647)
	verif.Reach("salience:literal-processed")
	verif.Assert("C20:salience-literal-handled-without-panic", !panicked)
	if panicked {
		verif.Assert("C03:salience-in-range-literal-accepted", verif.Not(inRange))
		return
	}
	// the literal reaches the rule entry exactly, or is rejected with an error - never stored silently as another value
	re := NewRuleEntry()
	var err error
	func() {
		defer func() {
			if r := recover(); r != nil {
				panicked = true
			}
		}()
		err = re.AcceptSalience(sal)
	}()
	verif.Assert("C20:salience-handed-to-the-rule-without-panic", !panicked)
	if panicked {
		return
	}
	if err == nil {
		verif.Assert("C03:salience-accepted-literal-is-in-range-and-stored-exactly", verif.And(inRange, int64(re.Salience) == v))
	} else {
		verif.Assert("C03:salience-in-range-literal-accepted", verif.Not(inRange))
	}
}
