package antlr

// C18 / C05 Tier K — string constants round-trip: the literal the JSON translator emits for {"const": s}
// (strconv.Quote today), decoded by the listener's unquoteString, is s again — for a byte-array string s of n
// symbolic bytes. Both functions (and strconv.Quote / UnquoteChar / utf8) run from their own SSA on the symbolic bytes.

import (
	"github.com/hyperjumptech/grule-rule-engine/pkg"
	verif "github.com/hyperjumptech/grule-rule-engine/zzverif"
)

func VerifQuoteRoundTrip(n int) {
	b := verif.Bytes("s", n)
	s := string(b)
	q, qerr := pkg.VerifConstLiteral(s)
	verif.Assert("C18:string-constant-translates", qerr == nil)
	if qerr != nil {
		return
	}
	verif.Reach("c18:quoted")
	u, err := unquoteString(q)
	verif.Assert("C18:string-constant-round-trips:no-error", err == nil)
	if err == nil {
		verif.Assert("C18:string-constant-round-trips:same-bytes", u == s)
	}
}
