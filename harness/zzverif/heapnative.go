package zzverif

// Native counterparts of gosym's heap queries (reflect + unsafe), so that isolation / isomorphism
// counterexamples replay against the real build. Footprints have no native counterpart.

import (
	"fmt"
	"reflect"
	"strings"
	"unsafe"
)

func expose(v reflect.Value) reflect.Value {
	if v.IsValid() && v.CanAddr() && !v.CanInterface() {
		return reflect.NewAt(v.Type(), unsafe.Pointer(v.UnsafeAddr())).Elem()
	}
	return v
}

var rvType = reflect.TypeOf(reflect.Value{})

func collect(v reflect.Value, seen map[uintptr]bool, depth int) {
	if !v.IsValid() || depth > 100000 {
		return
	}
	v = expose(v)
	switch v.Kind() {
	case reflect.Ptr:
		if v.IsNil() || seen[v.Pointer()] {
			return
		}
		seen[v.Pointer()] = true
		collect(v.Elem(), seen, depth+1)
	case reflect.Interface:
		if !v.IsNil() {
			collect(v.Elem(), seen, depth+1)
		}
	case reflect.Struct:
		if v.Type() == rvType {
			return // a reflect.Value payload: scalar constants, immutable
		}
		for i := 0; i < v.NumField(); i++ {
			f := v.Field(i)
			if !f.CanAddr() {
				c := reflect.New(v.Type()).Elem()
				c.Set(v)
				f = c.Field(i)
			}
			collect(f, seen, depth+1)
		}
	case reflect.Map:
		if v.IsNil() || seen[v.Pointer()] {
			return
		}
		seen[v.Pointer()] = true
		it := v.MapRange()
		for it.Next() {
			collect(it.Key(), seen, depth+1)
			collect(it.Value(), seen, depth+1)
		}
	case reflect.Slice:
		if v.IsNil() || v.Len() == 0 {
			return
		}
		if !seen[v.Pointer()] {
			seen[v.Pointer()] = true
		}
		for i := 0; i < v.Len(); i++ {
			collect(v.Index(i), seen, depth+1)
		}
	case reflect.Array:
		for i := 0; i < v.Len(); i++ {
			collect(v.Index(i), seen, depth+1)
		}
	}
}

// SharedCells counts the mutable heap objects (pointer targets, maps, slice backing arrays) reachable from both a and b.
func SharedCells(a, b any) int {
	sa, sb := map[uintptr]bool{}, map[uintptr]bool{}
	collect(reflect.ValueOf(a), sa, 0)
	collect(reflect.ValueOf(b), sb, 0)
	n := 0
	for p := range sa {
		if sb[p] {
			n++
		}
	}
	return n
}

type isoN struct {
	fwd, bwd map[uintptr]uintptr
	skip     map[string]bool
	scalars  map[string]bool
	why      string
}

func (s *isoN) fail(path, msg string) bool {
	if s.why == "" {
		s.why = path + ": " + msg
	}
	return false
}

func scalarKind(t reflect.Type) bool {
	if t == rvType {
		return true
	}
	switch t.Kind() {
	case reflect.Bool, reflect.Int, reflect.Int8, reflect.Int16, reflect.Int32, reflect.Int64, reflect.Uint, reflect.Uint8, reflect.Uint16,
		reflect.Uint32, reflect.Uint64, reflect.Uintptr, reflect.Float32, reflect.Float64, reflect.String, reflect.UnsafePointer, reflect.Complex64, reflect.Complex128:
		return true
	}
	return false
}

func (s *isoN) iso(a, b reflect.Value, path string) bool {
	a, b = expose(a), expose(b)
	if a.IsValid() != b.IsValid() {
		return s.fail(path, "validity differs")
	}
	if !a.IsValid() {
		return true
	}
	if a.Type() != b.Type() {
		return s.fail(path, "types differ")
	}
	if a.Type() == rvType {
		ra, rb := a.Interface().(reflect.Value), b.Interface().(reflect.Value)
		if ra.IsValid() != rb.IsValid() {
			return s.fail(path, "reflect.Value validity differs")
		}
		if !ra.IsValid() {
			return true
		}
		return s.iso(ra, rb, path+".(rv)")
	}
	switch a.Kind() {
	case reflect.Ptr:
		if a.IsNil() != b.IsNil() {
			return s.fail(path, "nil-ness differs")
		}
		if a.IsNil() {
			return true
		}
		pa, pb := a.Pointer(), b.Pointer()
		if q, ok := s.fwd[pa]; ok {
			if q != pb {
				return s.fail(path, "sharing differs (node shared on one side only)")
			}
			return true
		}
		if q, ok := s.bwd[pb]; ok && q != pa {
			return s.fail(path, "sharing differs (node shared on one side only)")
		}
		s.fwd[pa], s.bwd[pb] = pb, pa
		return s.iso(a.Elem(), b.Elem(), path)
	case reflect.Interface:
		if a.IsNil() != b.IsNil() {
			return s.fail(path, "nil-ness differs")
		}
		if a.IsNil() {
			return true
		}
		return s.iso(a.Elem(), b.Elem(), path)
	case reflect.Struct:
		tn := a.Type().Name()
		for i := 0; i < a.NumField(); i++ {
			f := a.Type().Field(i)
			if s.skip[f.Name] || s.skip[tn+"."+f.Name] {
				continue
			}
			if s.scalars != nil && scalarKind(f.Type) && !s.scalars[f.Name] && !s.scalars[tn+"."+f.Name] {
				continue
			}
			fa, fb := a.Field(i), b.Field(i)
			if !fa.CanAddr() {
				ca := reflect.New(a.Type()).Elem()
				ca.Set(a)
				fa = ca.Field(i)
				cb := reflect.New(b.Type()).Elem()
				cb.Set(b)
				fb = cb.Field(i)
			}
			if !s.iso(fa, fb, path+"."+f.Name) {
				return false
			}
		}
		return true
	case reflect.Slice, reflect.Array:
		if a.Len() != b.Len() {
			return s.fail(path, fmt.Sprintf("lengths differ %d vs %d", a.Len(), b.Len()))
		}
		for i := 0; i < a.Len(); i++ {
			if !s.iso(a.Index(i), b.Index(i), fmt.Sprintf("%s[%d]", path, i)) {
				return false
			}
		}
		return true
	case reflect.Map:
		if a.IsNil() != b.IsNil() {
			return s.fail(path, "map nil-ness differs")
		}
		if a.Len() != b.Len() {
			return s.fail(path, fmt.Sprintf("map sizes differ %d vs %d", a.Len(), b.Len()))
		}
		it := a.MapRange()
		for it.Next() {
			k := it.Key()
			kb := k
			if k.Kind() == reflect.Ptr {
				q, ok := s.fwd[k.Pointer()]
				if !ok {
					return s.fail(path, "map keyed by a node that is not reachable from the rule entries")
				}
				kb = reflect.NewAt(k.Type().Elem(), unsafe.Pointer(q))
			}
			vb := b.MapIndex(kb)
			if !vb.IsValid() {
				return s.fail(path, "map key missing on one side")
			}
			if !s.iso(it.Value(), vb, path+"[...]") {
				return false
			}
		}
		return true
	case reflect.Func, reflect.Chan, reflect.UnsafePointer:
		return true
	case reflect.String:
		if a.String() != b.String() {
			return s.fail(path, fmt.Sprintf("strings differ: %q vs %q", a.String(), b.String()))
		}
		return true
	case reflect.Bool:
		if a.Bool() != b.Bool() {
			return s.fail(path, "bools differ")
		}
		return true
	case reflect.Int, reflect.Int8, reflect.Int16, reflect.Int32, reflect.Int64:
		if a.Int() != b.Int() {
			return s.fail(path, "ints differ")
		}
		return true
	case reflect.Uint, reflect.Uint8, reflect.Uint16, reflect.Uint32, reflect.Uint64, reflect.Uintptr:
		if a.Uint() != b.Uint() {
			return s.fail(path, "uints differ")
		}
		return true
	case reflect.Float32, reflect.Float64:
		if a.Float() != b.Float() {
			return s.fail(path, "floats differ")
		}
		return true
	}
	return s.fail(path, "unsupported kind "+a.Kind().String())
}

// Isomorphic compares two object graphs incl. sharing; spec = "skip:A,B.C|scalars:X,Y.Z". Returns "" when isomorphic.
func Isomorphic(a, b any, spec string) string {
	s := &isoN{fwd: map[uintptr]uintptr{}, bwd: map[uintptr]uintptr{}, skip: map[string]bool{}}
	for _, part := range strings.Split(spec, "|") {
		kind, list := "skip", part
		if i := strings.Index(part, ":"); i >= 0 {
			kind, list = part[:i], part[i+1:]
		}
		for _, f := range strings.Split(list, ",") {
			if f == "" {
				continue
			}
			if kind == "scalars" {
				if s.scalars == nil {
					s.scalars = map[string]bool{}
				}
				s.scalars[f] = true
			} else {
				s.skip[f] = true
			}
		}
	}
	if s.iso(reflect.ValueOf(a), reflect.ValueOf(b), "") {
		return ""
	}
	return s.why
}
