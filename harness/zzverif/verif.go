// Package zzverif is the harness API of the /verif checks.
//
// Under gosym every function here is intercepted by name (bodies are not executed):
// the Nondet constructors return fresh SMT variables, Assume/Assert talk to the solver.
// Compiled natively, the bodies below *play back* one recorded model (VERIF_REPLAY=<file>),
// which is how counterexamples and witnesses are replayed against the real build.
package zzverif

import (
	"encoding/hex"
	"encoding/json"
	"fmt"
	"math"
	"os"
	"runtime"
	"strconv"
	"strings"
	"time"
)

type modelVal struct {
	Label string `json:"label"`
	Occ   int    `json:"occ"`
	Type  string `json:"type"`
	Bits  string `json:"bits"`
	Str   string `json:"str"`
	IsStr bool   `json:"is_str"`
}

type replayFile struct {
	Model   []modelVal `json:"model"`
	Choices []uint64   `json:"choices"`
}

// AssertResult is one evaluated assertion of a native replay.
type AssertResult struct {
	Label string `json:"label"`
	OK    bool   `json:"ok"`
}

// Outcome is what a native replay observed.
type Outcome struct {
	Asserts       []AssertResult `json:"asserts"`
	Events        []string       `json:"events"`
	Reached       []string       `json:"reached"`
	AssumeFailed  bool           `json:"assume_failed"`
	Diverged      bool           `json:"diverged"`
	Unconstrained []string       `json:"unconstrained"`
	Stopped       string         `json:"stopped"`
	Panic         string         `json:"panic,omitempty"`
	AllocOver     bool           `json:"alloc_over,omitempty"` // more than 8x the allocation policy was allocated after SetAllocPolicy
}

type state struct {
	allocLimit uint64
	allocBase  uint64
	vals       map[string]modelVal
	occ        map[string]int
	choices    []uint64
	nchoice    int
	out        Outcome
}

var st *state

// stopReplay is the panic value used to end a native replay early.
type stopReplay struct{ why string }

// Begin loads the model to play back. path == "" reads $VERIF_REPLAY.
func Begin(path string) error {
	if path == "" {
		path = os.Getenv("VERIF_REPLAY")
	}
	st = &state{vals: map[string]modelVal{}, occ: map[string]int{}}
	if path == "" {
		return nil
	}
	b, err := os.ReadFile(path)
	if err != nil {
		return err
	}
	var rf replayFile
	if err := json.Unmarshal(b, &rf); err != nil {
		return err
	}
	for _, v := range rf.Model {
		st.vals[fmt.Sprintf("%s#%d", v.Label, v.Occ)] = v
	}
	st.choices = rf.Choices
	return nil
}

// Run executes f under playback and returns what was observed.
func Run(path string, f func()) (out Outcome) {
	if err := Begin(path); err != nil {
		return Outcome{Panic: "replay file: " + err.Error(), Diverged: true}
	}
	defer func() {
		if r := recover(); r != nil {
			if s, ok := r.(stopReplay); ok {
				st.out.Stopped = s.why
			} else {
				st.out.Panic = fmt.Sprint(r)
			}
		}
		if st.allocLimit > 0 {
			var ms runtime.MemStats
			runtime.ReadMemStats(&ms)
			st.out.AllocOver = ms.TotalAlloc-st.allocBase > 8*st.allocLimit
		}
		out = st.out
	}()
	f()
	return
}

func ensure() {
	if st == nil {
		Begin("")
	}
}

func bits(label string) uint64 {
	ensure()
	k := st.occ[label]
	st.occ[label] = k + 1
	key := fmt.Sprintf("%s#%d", label, k)
	v, ok := st.vals[key]
	if !ok || strings.HasPrefix(v.Bits, "?") {
		st.out.Unconstrained = append(st.out.Unconstrained, key)
		return 0
	}
	u, _ := strconv.ParseUint(v.Bits, 16, 64)
	return u
}

// Symbolic reports whether the harness runs under gosym.
func Symbolic() bool { return false }

func Bool(label string) bool       { return bits(label) != 0 }
func Int(label string) int         { return int(bits(label)) }
func Int8(label string) int8       { return int8(bits(label)) }
func Int16(label string) int16     { return int16(bits(label)) }
func Int32(label string) int32     { return int32(bits(label)) }
func Int64(label string) int64     { return int64(bits(label)) }
func Uint(label string) uint       { return uint(bits(label)) }
func Uint8(label string) uint8     { return uint8(bits(label)) }
func Uint16(label string) uint16   { return uint16(bits(label)) }
func Uint32(label string) uint32   { return uint32(bits(label)) }
func Uint64(label string) uint64   { return bits(label) }
func Float32(label string) float32 { return math.Float32frombits(uint32(bits(label))) }
func Float64(label string) float64 { return math.Float64frombits(bits(label)) }

func String(label string) string {
	ensure()
	k := st.occ[label]
	st.occ[label] = k + 1
	key := fmt.Sprintf("%s#%d", label, k)
	v, ok := st.vals[key]
	if !ok {
		st.out.Unconstrained = append(st.out.Unconstrained, key)
		return ""
	}
	return v.Str
}

func Bytes(label string, n int) []byte {
	out := make([]byte, n)
	for i := range out {
		out[i] = Uint8(fmt.Sprintf("%s[%d]", label, i))
	}
	return out
}

// Pin returns data under gosym (where it must be concrete) and records it with the path; a native replay gets the recorded
// bytes back instead of data. Used for inputs the harness computes itself but whose layout is not deterministic natively
// (a stored stream depends on Go's map iteration order).
func Pin(label string, data []byte) []byte {
	ensure()
	k := st.occ[label]
	st.occ[label] = k + 1
	if v, ok := st.vals[fmt.Sprintf("%s#%d", label, k)]; ok && v.Type == "pin" {
		if b, err := hex.DecodeString(v.Str); err == nil {
			return b
		}
	}
	return data
}

func Choice(label string, n int) int {
	ensure()
	if st.nchoice >= len(st.choices) {
		st.out.Diverged = true
		st.nchoice++
		return 0
	}
	c := int(st.choices[st.nchoice])
	st.nchoice++
	if c >= n {
		st.out.Diverged = true
		return 0
	}
	return c
}

func Assume(c bool) {
	ensure()
	if !c {
		st.out.AssumeFailed = true
		panic(stopReplay{"assume"})
	}
}

func Assert(label string, c bool) {
	ensure()
	st.out.Asserts = append(st.out.Asserts, AssertResult{label, c})
}

func Reach(label string) { ensure(); st.out.Reached = append(st.out.Reached, label) }
func Stop(why string)    { ensure(); panic(stopReplay{"stop: " + why}) }
func Outside(why string) { ensure(); panic(stopReplay{"outside: " + why}) }

func And(a, b bool) bool     { return a && b }
func Or(a, b bool) bool      { return a || b }
func Not(a bool) bool        { return !a }
func Implies(a, b bool) bool { return !a || b }
func Iff(a, b bool) bool     { return a == b }

func IteBool(c bool, a, b bool) bool {
	if c {
		return a
	}
	return b
}
func IteInt(c bool, a, b int) int {
	if c {
		return a
	}
	return b
}
func IteInt64(c bool, a, b int64) int64 {
	if c {
		return a
	}
	return b
}
func IteUint64(c bool, a, b uint64) uint64 {
	if c {
		return a
	}
	return b
}
func IteFloat64(c bool, a, b float64) float64 {
	if c {
		return a
	}
	return b
}

// Event appends to the trace. Integers are rendered as "#<hex of the two's complement bits>"
// so that the native trace is comparable with the executor's prediction.
func Event(kind string, args ...any) {
	ensure()
	var b strings.Builder
	b.WriteString(kind)
	for _, a := range args {
		b.WriteByte(' ')
		b.WriteString(render(a))
	}
	st.out.Events = append(st.out.Events, b.String())
}

func render(a any) string {
	switch v := a.(type) {
	case string:
		return v
	case bool:
		if v {
			return "true"
		}
		return "false"
	case int:
		return strconv.Itoa(v)
	case int8:
		return strconv.FormatInt(int64(v), 10)
	case int16:
		return strconv.FormatInt(int64(v), 10)
	case int32:
		return strconv.FormatInt(int64(v), 10)
	case int64:
		return strconv.FormatInt(v, 10)
	case uint:
		return strconv.FormatUint(uint64(v), 10)
	case uint8:
		return strconv.FormatUint(uint64(v), 10)
	case uint16:
		return strconv.FormatUint(uint64(v), 10)
	case uint32:
		return strconv.FormatUint(uint64(v), 10)
	case uint64:
		return strconv.FormatUint(v, 10)
	}
	return fmt.Sprint(a)
}

// IsConcrete is always true natively.
func IsConcrete(v any) bool { return true }

// SetAllocPolicy: see gosym (symbolic make sizes). Natively the bytes allocated from here on are measured
// (runtime.MemStats.TotalAlloc); Outcome.AllocOver reports more than 8x the policy.
func SetAllocPolicy(limitBytes int, candidates ...int) {
	ensure()
	var ms runtime.MemStats
	runtime.ReadMemStats(&ms)
	st.allocLimit, st.allocBase = uint64(limitBytes), ms.TotalAlloc
}

// SymbolicClock: see gosym (time.Now becomes an arbitrary non-decreasing instant). Natively the real clock runs.
func SymbolicClock() {}

// Cost runs f and returns what it cost in "steps": SSA instructions under gosym; natively the smallest elapsed time of
// three runs divided by 50 ns (compiled code retires more than one SSA instruction per 50 ns, so a bound that holds in
// steps under gosym holds natively with a wide margin, while exponential blow-ups exceed it in both). f must be idempotent.
func Cost(f func()) int {
	best := time.Duration(1 << 62)
	for i := 0; i < 3; i++ {
		t0 := time.Now()
		f()
		if d := time.Since(t0); d < best {
			best = d
		}
	}
	return int(best/(50*time.Nanosecond)) + 1
}

// ClockTick lets real time pass in a native replay (1.1 s, so that readings with one-second resolution differ); under gosym
// the symbolic clock may advance by any amount between any two readings anyway.
func ClockTick() { time.Sleep(1100 * time.Millisecond) }

// LimitIsViolation: see gosym. Natively a hang / stack exhaustion shows as a crashed or timed-out replay.
func LimitIsViolation(label string) {}

// OrderRelevant marks a map whose iteration order is a quantified input. No-op natively.
func OrderRelevant(m any) {}

func FloatIsNaN(f float64) bool { return f != f }

// SameFloat64: the same IEEE value (NaN counts as equal to NaN).
func SameFloat64(a, b float64) bool { return a == b || (a != a && b != b) }

// LoadImage is replaced natively by the kb package (real builder); calling it here is an error.
func LoadImage(name string, dst any) { panic("zzverif.LoadImage is only available under gosym") }

// ---- heap queries (gosym only; natively they report "nothing to see", the checks that use them are model-level)

func FootprintBegin(tag string)                        {}
func FootprintEnd(tag string)                          {}
func FootprintConflicts(a, b string) int               { return 0 }
func FootprintWritesInto(tag string, roots ...any) int { return 0 }
func FootprintSize(tag string) int                     { return 1 }
func FootprintTouches(tag string, roots ...any) int    { return 0 }
func FootprintWritesGlobals(tag string) int            { return 0 }
