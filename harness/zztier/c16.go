package zztier

// C16 — rule names stay unique and removed rules never fire again (histories through the native prefix).
// A recipe runs a build / remove / re-build history with the REAL builder and library natively; the resulting
// library is imported and the suffix (instantiate, execute on symbolic facts, store, load, instantiate, execute) runs in the executor.

import (
	"context"
	"strings"

	"github.com/hyperjumptech/grule-rule-engine/ast"
	"github.com/hyperjumptech/grule-rule-engine/engine"
	"github.com/hyperjumptech/grule-rule-engine/zzkb"
	verif "github.com/hyperjumptech/grule-rule-engine/zzverif"
)

type c16Listener struct {
	evaluated, fired map[string]int
	deletedSeen      bool
}

func (l *c16Listener) BeginCycle(ctx context.Context, cycle uint64) {}
func (l *c16Listener) EvaluateRuleEntry(ctx context.Context, cycle uint64, e *ast.RuleEntry, cand bool) {
	l.evaluated[e.RuleDescription]++
	if e.Deleted || strings.HasPrefix(e.RuleName, "Deleted_") {
		l.deletedSeen = true
	}
}
func (l *c16Listener) ExecuteRuleEntry(ctx context.Context, cycle uint64, e *ast.RuleEntry) {
	l.fired[e.RuleDescription]++
	if e.Deleted || strings.HasPrefix(e.RuleName, "Deleted_") {
		l.deletedSeen = true
	}
}

// c16Check: on an instance of kbName the rules with a description in `gone` never run; the active rule named A is `wantA`.
func c16Check(L string, lib *ast.KnowledgeLibrary, kbName string, gone []string, wantA string, f0 *Fact) {
	c16CheckAgainst(L, lib, kbName, gone, wantA, f0, "X")
}

func c16CheckAgainst(L string, lib *ast.KnowledgeLibrary, kbName string, gone []string, wantA string, f0 *Fact, aloneKB string) {
	c16CheckVer(L, lib, kbName, "1", gone, wantA, f0, aloneKB)
}

func c16CheckVer(L string, lib *ast.KnowledgeLibrary, kbName, ver string, gone []string, wantA string, f0 *Fact, aloneKB string) {
	kb, err := lib.NewKnowledgeBaseInstance(kbName, ver)
	verif.Assert(L+"knowledge-base-can-be-instantiated", err == nil && kb != nil)
	if err != nil || kb == nil {
		return
	}
	// names are unique among active entries and keys equal names
	active := map[string]int{}
	for k, re := range kb.RuleEntries {
		if !re.Deleted {
			active[re.RuleName]++
			verif.Assert(L+"map-key-equals-rule-name", k == re.RuleName)
		}
	}
	for _, n := range active {
		verif.Assert(L+"active-rule-names-are-unique", n == 1)
	}
	if wantA != "" {
		a := kb.RuleEntries["A"]
		verif.Assert(L+"the-name-denotes-the-rule-built-last", a != nil && !a.Deleted && a.RuleDescription == wantA)
	} else {
		a := kb.RuleEntries["A"]
		verif.Assert(L+"removed-name-is-free", a == nil || a.Deleted)
	}
	f := copyFact(f0)
	dc := ast.NewDataContext()
	dc.Add("F", f)
	lis := &c16Listener{evaluated: map[string]int{}, fired: map[string]int{}}
	eng := &engine.GruleEngine{MaxCycle: 3, Listeners: []engine.GruleEngineListener{lis}}
	_ = eng.Execute(dc, kb)
	for _, g := range gone {
		verif.Assert(L+"removed-rule-never-evaluated-or-fired:"+g, lis.evaluated[g] == 0 && lis.fired[g] == 0)
	}
	verif.Assert(L+"no-tombstoned-entry-is-evaluated", !lis.deletedSeen)
	ms, merr := eng.FetchMatchingRules(dc, kb)
	if merr == nil {
		for _, re := range ms {
			for _, g := range gone {
				verif.Assert(L+"removed-rule-never-matches:"+g, re.RuleDescription != g)
			}
		}
	}
	// the rule now named A behaves exactly as when built alone (knowledge base X holds it alone)
	if wantA != "" && lib.GetKnowledgeBase(aloneKB, "1") != nil && len(lib.GetKnowledgeBase(aloneKB, "1").RuleEntries) > 0 {
		a1, ok1 := c07Run(lib, aloneKB, "A", f0)
		a2, ok2 := c07RunVer(lib, kbName, ver, "A", f0)
		verif.Assert(L+"reused-name-rule-can-be-run", ok1 && ok2)
		if ok1 && ok2 {
			c07Same(L+"reused-name-behaves-per-its-own-text:", a1, a2)
		}
	}
}

type c16Hist struct {
	tmpl  string
	gone  []string
	wantA string
}

var c16Hists = []c16Hist{
	{"h_remove", []string{"v1"}, ""},
	{"h_reuse", []string{"v1"}, "v2"},
	{"h_reuse_twice_lib", []string{"v1", "v2"}, "v3"},
	{"h_reuse_twice_kb", []string{"v1", "v2"}, "v3"},
	{"h_dup_later_resource", nil, "v1"},
	{"h_dup_same_resource", nil, "v1"},
	{"h_two_kbs", nil, "v1"},
	{"h_dup_identical", nil, "v1"},
	{"h_remove_among_kbs", []string{"v1"}, ""},
	{"h_deleted_name", []string{"v1"}, ""},
}

func VerifC16History(storeLoad int) {
	h := c16Hists[verif.Choice("history", len(c16Hists))]
	lib := zzkb.LoadLibrary(h.tmpl)
	L := "C16:" + h.tmpl + ":"
	f0 := newFact("F", 0)
	verif.Reach("c16:history")
	if storeLoad == 0 {
		if strings.HasPrefix(h.tmpl, "h_dup") {
			log := zzkb.StepLog(h.tmpl)
			verif.Assert(L+"building-an-existing-name-returns-an-error", len(log) > 1 && log[1] == "build:true")
		}
		c16Check(L, lib, "T", h.gone, h.wantA, f0)
		if h.tmpl == "h_remove_among_kbs" {
			// removing A from T:1 leaves the A of the knowledge bases that share its name (T:2) or its version (U:1) alone
			c16CheckVer(L+"same-version-other-name:", lib, "U", "1", nil, "v2", f0, "X2")
			c16CheckVer(L+"same-name-other-version:", lib, "T", "2", nil, "v3", f0, "X3")
		}
		if h.tmpl == "h_two_kbs" {
			// the second knowledge base of the library is not influenced by the first
			c16CheckAgainst(L+"other-knowledge-base:", lib, "U", nil, "v2", f0, "X2")
		}
		return
	}
	// removed rules stay removed across store / load
	if len(h.gone) == 0 {
		verif.Stop("store/load is exercised on the histories that remove rules")
	}
	w := &vcWriter{}
	serr := lib.StoreKnowledgeBaseToWriter(w, "T", "1")
	verif.Assert(L+"stored:store-succeeds", serr == nil)
	if serr != nil {
		return
	}
	lib2 := ast.NewKnowledgeLibrary()
	kb2, lerr, pan := loadKB(&vcReader{data: w.buf, limit: len(w.buf)}, true, lib2)
	verif.Assert(L+"stored:load-succeeds", lerr == nil && !pan && kb2 != nil)
	if lerr != nil || pan || kb2 == nil {
		return
	}
	verif.Reach("c16:stored-and-loaded")
	c16Check(L+"stored:", lib2, "T", h.gone, h.wantA, f0)
}
