// Package zztier holds the Tier B / Tier C harnesses: real knowledge bases (built natively by the
// real builder, imported as heap images under gosym) driven through the public API.
package zztier

import (
	"errors"
	"io"
	"sort"

	"github.com/hyperjumptech/grule-rule-engine/ast"
	"github.com/hyperjumptech/grule-rule-engine/zzkb"
	verif "github.com/hyperjumptech/grule-rule-engine/zzverif"
)

// ---------------------------------------------------------------- harness io

// vcWriter collects the stream; it can fail at a given Write call (contract-abiding: n < len => err != nil).
type vcWriter struct {
	buf    []byte
	calls  int
	failAt int  // symbolic or -1
	fails  bool // whether a failure is armed
	failed bool
	part   bool // a failing Write accepts part of the data first
}

var errDisk = errors.New("harness: write failed")

func (w *vcWriter) Write(p []byte) (int, error) {
	k := w.calls
	w.calls++
	if w.fails && !w.failed && k == w.failAt {
		w.failed = true
		if w.part && len(p) > 1 {
			w.buf = append(w.buf, p[:len(p)/2]...)
			return len(p) / 2, errDisk
		}
		return 0, errDisk
	}
	w.buf = append(w.buf, p...)
	return len(p), nil
}

// vcReader serves data[:limit]; limit may be symbolic. Each Read distinguishes "all requested bytes
// available", "none" and "cut inside this request" by comparing limit with concrete positions, so the
// solver partitions [0,len] into the intervals that behave alike.
type vcReader struct {
	data  []byte
	pos   int
	limit int
	all   bool // enumerate every cut position inside a field (thorough) instead of first/last
	cutIn bool
}

func (r *vcReader) Read(p []byte) (int, error) {
	if len(p) == 0 {
		return 0, nil
	}
	n := len(p)
	if r.pos+n > len(r.data) {
		n = len(r.data) - r.pos
	}
	if r.limit <= r.pos || n == 0 {
		return 0, io.EOF
	}
	if r.limit >= r.pos+n {
		copy(p, r.data[r.pos:r.pos+n])
		r.pos += n
		return n, nil
	}
	// the cut lies strictly inside this request: pos < limit < pos+n
	r.cutIn = true
	a := 1
	if r.all {
		a = 1 + verif.Choice("cut-inside-field", n-1)
	} else if n > 2 && verif.Choice("cut-inside-field", 2) == 1 {
		a = n - 1
	}
	verif.Assume(r.limit == r.pos+a)
	copy(p, r.data[r.pos:r.pos+a])
	r.pos += a
	return a, nil
}

// ---------------------------------------------------------------- helpers

type ruleMeta struct {
	name, desc string
	sal        int
	deleted    bool
}

func kbMeta(kb *ast.KnowledgeBase) []ruleMeta {
	var keys []string
	for k := range kb.RuleEntries {
		keys = append(keys, k)
	}
	sort.Strings(keys)
	var out []ruleMeta
	for _, k := range keys {
		e := kb.RuleEntries[k]
		out = append(out, ruleMeta{e.RuleName, e.RuleDescription, e.Salience, e.Deleted})
	}
	return out
}

func storeKB(lib *ast.KnowledgeLibrary, w *vcWriter) (err error, panicked bool) {
	defer func() {
		if r := recover(); r != nil {
			panicked = true
		}
	}()
	err = lib.StoreKnowledgeBaseToWriter(w, "T", "1")
	return
}

func loadKB(r io.Reader, overwrite bool, into *ast.KnowledgeLibrary) (kb *ast.KnowledgeBase, err error, panicked bool) {
	defer func() {
		if rr := recover(); rr != nil {
			panicked = true
		}
	}()
	kb, err = into.LoadKnowledgeBaseFromReader(r, overwrite)
	return
}

func symbolicSaliences(kb *ast.KnowledgeBase) {
	var keys []string
	for k := range kb.RuleEntries {
		keys = append(keys, k)
	}
	sort.Strings(keys)
	for _, k := range keys {
		s := verif.Int("salience:" + k)
		verif.Assume(verif.And(s >= -2147483648, s <= 2147483647))
		kb.RuleEntries[k].Salience = s
	}
}

func compareMeta(label string, a, b *ast.KnowledgeBase) {
	verif.Assert("C12:"+label+":same-name-and-version", a.Name == b.Name && a.Version == b.Version)
	ma, mb := kbMeta(a), kbMeta(b)
	verif.Assert("C12:"+label+":same-number-of-rules", len(ma) == len(mb))
	if len(ma) != len(mb) {
		return
	}
	for i := range ma {
		verif.Assert("C12:"+label+":same-rule-name", ma[i].name == mb[i].name)
		verif.Assert("C12:"+label+":same-description", ma[i].desc == mb[i].desc)
		verif.Assert("C12:"+label+":same-salience", ma[i].sal == mb[i].sal)
	}
}

// ---------------------------------------------------------------- entries

// VerifTierCRoundTrip: store -> load -> store -> load; saliences symbolic when symSal != 0.
func VerifTierCRoundTrip(tmpl string, symSal int) {
	lib := zzkb.LoadLibrary(tmpl)
	kb := lib.GetKnowledgeBase("T", "1")
	if symSal != 0 {
		symbolicSaliences(kb)
	}
	w := &vcWriter{}
	err, pan := storeKB(lib, w)
	verif.Assert("C12:store-succeeds-on-a-healthy-writer", err == nil && !pan)
	if err != nil || pan {
		return
	}
	verif.Reach("tierC:stored")
	lib2 := ast.NewKnowledgeLibrary()
	kb2, err, pan := loadKB(&vcReader{data: w.buf, limit: len(w.buf)}, true, lib2)
	verif.Assert("C12:load-succeeds-on-the-full-stream", err == nil && !pan && kb2 != nil)
	if err != nil || pan || kb2 == nil {
		return
	}
	verif.Reach("tierC:loaded")
	compareMeta("first-load", kb, kb2)
	if symSal == 0 {
		verif.Assert("C12:first-load:same-snapshot", kb.GetSnapshot() == kb2.GetSnapshot())
	}
	// store and load again
	w2 := &vcWriter{}
	lib2b := lib2
	err2 := lib2b.StoreKnowledgeBaseToWriter(w2, "T", "1")
	verif.Assert("C12:second-store-succeeds", err2 == nil)
	if err2 != nil {
		return
	}
	lib3 := ast.NewKnowledgeLibrary()
	kb3, err, pan := loadKB(&vcReader{data: w2.buf, limit: len(w2.buf)}, true, lib3)
	verif.Assert("C12:second-load-succeeds", err == nil && !pan && kb3 != nil)
	if err != nil || pan || kb3 == nil {
		return
	}
	compareMeta("second-load", kb, kb3)
	if symSal == 0 {
		verif.Assert("C12:second-load:same-snapshot", kb.GetSnapshot() == kb3.GetSnapshot())
	}
	// instances of the loaded knowledge bases can be created (C09 "successfully built or loaded")
	_, ierr := lib2.NewKnowledgeBaseInstance("T", "1")
	verif.Assert("C09:instance-of-a-loaded-knowledge-base", ierr == nil)
	// overwrite=false leaves an existing entry untouched
	before := lib2.GetKnowledgeBase("T", "1")
	kbx, errx, _ := loadKB(&vcReader{data: w.buf, limit: len(w.buf)}, false, lib2)
	verif.Assert("C12:overwrite-false-reports-the-existing-entry", errx != nil && kbx == nil)
	verif.Assert("C12:overwrite-false-leaves-the-entry-untouched", lib2.GetKnowledgeBase("T", "1") == before)
}

// VerifTierCTruncate: the stored stream is cut at a symbolic offset T < len: the load must fail.
// all != 0: every cut position inside a field is explored, else the first and last one.
func VerifTierCTruncate(tmpl string, all int) {
	lib := zzkb.LoadLibrary(tmpl)
	w := &vcWriter{}
	if err := lib.StoreKnowledgeBaseToWriter(w, "T", "1"); err != nil {
		panic(err)
	}
	n := len(w.buf)
	t := verif.Int("cut-offset")
	verif.Assume(verif.And(t >= 0, t < n))
	r := &vcReader{data: w.buf, limit: t, all: all != 0}
	lib2 := ast.NewKnowledgeLibrary()
	verif.LimitIsViolation("C20:load-of-a-truncated-stream-terminates-within-budget")
	kb2, err, pan := loadKB(r, true, lib2)
	verif.Reach("tierC:truncated-load-returned")
	if r.cutIn {
		verif.Reach("tierC:cut-inside-a-field")
	} else {
		verif.Reach("tierC:cut-at-a-field-boundary")
	}
	verif.Assert("C20:truncated-stream-no-panic-escapes", !pan)
	verif.Assert("C12:truncated-stream-is-rejected", err != nil && kb2 == nil)
	if err == nil {
		verif.Assert("C12:truncated-stream-not-registered", lib2.GetKnowledgeBase("T", "1") == nil || len(lib2.GetKnowledgeBase("T", "1").RuleEntries) == 0)
	}
	verif.Event("cut", r.cutIn, err != nil)
}

// VerifTierCWriterFault: the writer fails at a symbolic Write call index: the store must report it.
func VerifTierCWriterFault(tmpl string) {
	lib := zzkb.LoadLibrary(tmpl)
	// count the calls of a healthy store first (concrete)
	w0 := &vcWriter{}
	if err := lib.StoreKnowledgeBaseToWriter(w0, "T", "1"); err != nil {
		panic(err)
	}
	k := verif.Int("failing-write-index")
	verif.Assume(verif.And(k >= 0, k < w0.calls))
	w := &vcWriter{fails: true, failAt: k, part: verif.Choice("partial-write", 2) == 1}
	err, pan := storeKB(lib, w)
	verif.Reach("tierC:faulty-store-returned")
	verif.Assert("C12:writer-fault-no-panic", !pan)
	verif.Assert("C12:writer-fault-is-reported", w.failed && err != nil)
	verif.Event("fault", w.failed, err != nil)
}

// VerifTierCEquiv: instances of the LOADED knowledge base behave on every fact set exactly like instances of the stored
// one (also after storing and loading again): every rule of every template of the set is evaluated and executed on copies
// of the same symbolic facts in both, and a short Execute is compared as well.
func VerifTierCEquiv(set string) {
	ts := tbSets[set]
	tmpl := ts[verif.Choice("template", len(ts))]
	L := "C12:equivalence@" + tmpl + ":"
	lib := zzkb.LoadLibrary(tmpl)
	w := &vcWriter{}
	if err := lib.StoreKnowledgeBaseToWriter(w, "T", "1"); err != nil {
		verif.Assert(L+"store-succeeds", false)
		return
	}
	lib2 := ast.NewKnowledgeLibrary()
	kb2, err, pan := loadKB(&vcReader{data: w.buf, limit: len(w.buf)}, true, lib2)
	verif.Assert(L+"load-succeeds", err == nil && !pan && kb2 != nil)
	if err != nil || pan || kb2 == nil {
		return
	}
	// second generation
	w2 := &vcWriter{}
	if err := lib2.StoreKnowledgeBaseToWriter(w2, "T", "1"); err != nil {
		verif.Assert(L+"second-store-succeeds", false)
		return
	}
	lib3 := ast.NewKnowledgeLibrary()
	kb3, err3, pan3 := loadKB(&vcReader{data: w2.buf, limit: len(w2.buf)}, true, lib3)
	verif.Assert(L+"second-load-succeeds", err3 == nil && !pan3 && kb3 != nil)
	verif.Reach("tierC:equiv-loaded")
	f0 := newFact("F", 0)
	names := sortedRuleNames(lib.GetKnowledgeBase("T", "1"))
	for _, r := range names {
		a, ok := c07Run(lib, "T", r, f0)
		verif.Assert(L+r+":instance-of-the-stored-knowledge-base", ok)
		b, ok2 := c07Run(lib2, "T", r, f0)
		verif.Assert(L+r+":instance-of-the-loaded-knowledge-base", ok2)
		if ok && ok2 {
			c07Same(L+r+":loaded-vs-stored:", a, b)
		}
		if err3 == nil && !pan3 && kb3 != nil {
			c, ok3 := c07Run(lib3, "T", r, f0)
			verif.Assert(L+r+":instance-of-the-twice-loaded-knowledge-base", ok3)
			if ok && ok3 {
				c07Same(L+r+":twice-loaded-vs-stored:", a, c)
			}
		}
	}
}

// VerifTierCOverwrite: overwrite=false leaves an EXISTING entry untouched - whether it holds rules or not - and reports it.
func VerifTierCOverwrite(tmpl string) {
	lib := zzkb.LoadLibrary(tmpl)
	w := &vcWriter{}
	if err := lib.StoreKnowledgeBaseToWriter(w, "T", "1"); err != nil {
		panic(err)
	}
	verif.Reach("tierC:overwrite-case")
	switch verif.Choice("existing-entry", 3) {
	case 0: // no entry yet: the load succeeds
		lib2 := ast.NewKnowledgeLibrary()
		kb, err, pan := loadKB(&vcReader{data: w.buf, limit: len(w.buf)}, false, lib2)
		verif.Assert("C12:overwrite-false:load-into-a-library-without-the-entry-succeeds", err == nil && !pan && kb != nil)
	case 1: // an entry with rules exists
		lib2 := ast.NewKnowledgeLibrary()
		if _, err, pan := loadKB(&vcReader{data: w.buf, limit: len(w.buf)}, true, lib2); err != nil || pan {
			verif.Stop("first load failed")
		}
		before := lib2.GetKnowledgeBase("T", "1")
		n := len(before.RuleEntries)
		_, err, pan := loadKB(&vcReader{data: w.buf, limit: len(w.buf)}, false, lib2)
		verif.Assert("C12:overwrite-false:existing-entry-with-rules-is-reported", err != nil && !pan)
		verif.Assert("C12:overwrite-false:existing-entry-left-untouched", lib2.GetKnowledgeBase("T", "1") == before && len(before.RuleEntries) == n)
	case 2: // an entry WITHOUT rules exists (e.g. created by an earlier GetKnowledgeBase)
		lib2 := ast.NewKnowledgeLibrary()
		before := lib2.GetKnowledgeBase("T", "1")
		_, err, pan := loadKB(&vcReader{data: w.buf, limit: len(w.buf)}, false, lib2)
		verif.Assert("C12:overwrite-false:existing-empty-entry-is-reported", err != nil && !pan)
		verif.Assert("C12:overwrite-false:existing-entry-left-untouched", lib2.GetKnowledgeBase("T", "1") == before && len(before.RuleEntries) == 0)
	}
}
