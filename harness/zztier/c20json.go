package zztier

// C20 (JSON fact text part) - DataContext.AddJSON on a structure-aware corpus of CONCRETE JSON fact texts (empty, blank,
// truncated, null / scalars / arrays at the root, null and wrong kinds at every position the rules of template j_basic read
// or write, huge numbers, deep nesting), followed by a short run of j_basic on whatever was accepted: the loader returns a
// fact or an error, and what it accepts never makes Execute panic. json.Unmarshal itself is native for concrete input;
// the JSONValueNode accessors and setters run from SSA. Concrete enumeration, not solver-quantified.

import (
	"strings"

	"github.com/hyperjumptech/grule-rule-engine/ast"
	"github.com/hyperjumptech/grule-rule-engine/engine"
	"github.com/hyperjumptech/grule-rule-engine/zzkb"
	verif "github.com/hyperjumptech/grule-rule-engine/zzverif"
)

var c20JSONFacts = []string{
	``, ` `, `{`, `{"a":`, `{"a":1`, `{"a":1,}`, `nul`, `null`, `true`, `1`, `-0`, `"s"`, `[]`, `[1,2]`, `[[[]]]`, `{}`,
	`{"a":null}`, `{"a":"x"}`, `{"a":true}`, `{"a":[1]}`, `{"a":{"a":1}}`, `{"a":1e999}`, `{"a":1e308}`, `{"a":-1e-400}`,
	`{"a":12345678901234567890}`, `{"a":0.1,"a":2}`,
	`{"a":1,"b":null,"flag":true,"s":"go","arr":[1,2]}`, `{"a":1,"b":{},"flag":true,"s":"go","arr":[1,2]}`,
	`{"a":1,"b":{"c":null},"flag":null,"s":null,"arr":null}`, `{"a":1,"b":{"c":"5"},"flag":"true","s":5,"arr":{"0":1}}`,
	`{"a":1,"b":{"c":5},"flag":true,"s":"go","arr":[]}`, `{"a":1,"b":{"c":5},"flag":true,"s":"go","arr":[1]}`,
	`{"a":1,"b":{"c":5},"flag":true,"s":"go","arr":[null,"x"]}`, `{"a":1,"b":[5],"flag":1,"s":["go"],"arr":[[1],[2]]}`,
	`{"a":1,"b":{"c":5},"flag":true,"s":"go","arr":[1,2]}`, `{"A":1,"B":{"C":5}}`, `{"a":1,"b":{"c":5},"flag":true,"s":"g\u0000o","arr":[1,2]}`,
	"{\"a\":1,\"b\":{\"c\":5},\"flag\":true,\"s\":\"\xff\",\"arr\":[1,2]}", "\xef\xbb\xbf{\"a\":1}", `{"a":1}{"a":2}`, `{"a":1} x`,
	strings.Repeat(`{"a":`, 200) + `1` + strings.Repeat(`}`, 200), strings.Repeat(`[`, 5000) + strings.Repeat(`]`, 5000),
	strings.Repeat(`[`, 20000),
}

func VerifC20JSONFacts() {
	k := verif.Choice("text", len(c20JSONFacts))
	txt := c20JSONFacts[k]
	lib := zzkb.LoadLibrary("j_basic")
	kb, err := lib.NewKnowledgeBaseInstance("T", "1")
	if err != nil {
		verif.Assert("C09:instance-creation-succeeds@j_basic", false)
		return
	}
	dc := ast.NewDataContext()
	f := newFact("F", 0)
	dc.Add("F", f)
	verif.Reach("c20:json-fact-text")
	var aerr error
	panicked := false
	func() {
		defer func() {
			if r := recover(); r != nil {
				panicked = true
			}
		}()
		aerr = dc.AddJSON("J", []byte(txt))
	}()
	verif.Assert("C20:json-fact-loader-does-not-panic", !panicked)
	if panicked {
		return
	}
	verif.Assert("C20:json-fact-loader-returns-a-fact-or-an-error", (aerr != nil) != (dc.Get("J") != nil))
	if aerr != nil {
		verif.Event("json-fact", k, "rejected")
		return
	}
	verif.Reach("c20:json-fact-accepted")
	verif.LimitIsViolation("C20:run-on-an-accepted-json-fact-terminates-within-budget")
	var xerr error
	func() {
		defer func() {
			if r := recover(); r != nil {
				panicked = true
			}
		}()
		xerr = (&engine.GruleEngine{MaxCycle: 3}).Execute(dc, kb)
	}()
	verif.Assert("C20:accepted-json-fact-never-makes-Execute-panic", !panicked)
	verif.Assert("C14:no-panic-escapes", !panicked)
	verif.Event("json-fact", k, "accepted", xerr != nil)
}
