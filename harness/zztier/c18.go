package zztier

// C18 — JSON rule definitions translate to GRL with the same meaning (generated family, see tools/gen_c18.py).
// The JSON rule goes through the REAL translator and builder natively; the built condition / action is evaluated on
// symbolic facts and compared with the JSON operator tree grouped exactly as nested.

import (
	"context"
	"strconv"

	"github.com/hyperjumptech/grule-rule-engine/ast"
	"github.com/hyperjumptech/grule-rule-engine/zzkb"
	verif "github.com/hyperjumptech/grule-rule-engine/zzverif"
)

func VerifC18(t int) {
	cases := c18Cases[t]
	k := verif.Choice("case", len(cases))
	c := cases[k]
	lib := zzkb.LoadLibrary("c18_" + strconv.Itoa(t))
	L := "C18:" + c.tag + ":"
	kb, err := lib.NewKnowledgeBaseInstance("T", "1")
	if err != nil {
		verif.Assert(L+"knowledge-base-of-translated-rules-can-be-instantiated", false)
		return
	}
	re := kb.RuleEntries[c.rule]
	verif.Reach("c18:case")
	verif.Assert(L+"translation-accepted-by-the-builder", re != nil)
	if re == nil {
		return
	}
	verif.Assert(L+"same-name-description-salience", re.RuleName == c.rule && re.RuleDescription == c.tag && re.Salience == c18Salience(t*40+k))
	f := newFact("F", 0)
	verif.Assume(c.nz(f))
	pre := *f
	dc := ast.NewDataContext()
	dc.Add("F", f)
	kb.WorkingMemory.ResetAll()
	kb.InitializeContext(dc)
	ctx := context.Background()
	switch c.kind {
	case 2:
		can, cerr := re.Evaluate(ctx, dc, kb.WorkingMemory)
		verif.Assert(L+"condition-evaluates-without-error", cerr == nil)
		if cerr == nil {
			verif.Assert(L+"condition-value-equals-the-tree-as-nested", verif.Iff(can, c.refB(&pre)))
		}
	default:
		xerr := re.Execute(ctx, dc, kb.WorkingMemory)
		verif.Assert(L+"action-executes-without-error", xerr == nil)
		if xerr != nil {
			return
		}
		if c.kind == 0 {
			verif.Assert(L+"action-value-equals-the-tree-as-nested", f.RI == c.refI(&pre))
		} else {
			verif.Assert(L+"action-value-equals-the-tree-as-nested", verif.SameFloat64(f.RF, c.refF(&pre)))
		}
	}
	verif.Event("case", c.rule)
}

// VerifC18All enumerates every generated family part (explored in parallel in one process).
func VerifC18All() { VerifC18(verif.Choice("part", c18Templates)) }
