package zztier

// C18 — JSON rule definitions translate to GRL with the same meaning (generated family, see tools/gen_c18.py).
// The JSON rule goes through the REAL translator and builder natively; the built condition / action is evaluated on
// symbolic facts and compared with the JSON operator tree grouped exactly as nested.

import (
	"context"
	"strconv"

	"github.com/hyperjumptech/grule-rule-engine/ast"
	"github.com/hyperjumptech/grule-rule-engine/zzkb"
	verif "github.com/hyperjumptech/grule-rule-engine/zzverif"
)

func VerifC18(t int) {
	cases := c18Cases[t]
	k := verif.Choice("case", len(cases))
	c := cases[k]
	lib := zzkb.LoadLibrary("c18_" + strconv.Itoa(t))
	L := "C18:" + c.tag + ":"
	kb, err := lib.NewKnowledgeBaseInstance("T", "1")
	if err != nil {
		verif.Assert(L+"knowledge-base-of-translated-rules-can-be-instantiated", false)
		return
	}
	re := kb.RuleEntries[c.rule]
	verif.Reach("c18:case")
	verif.Assert(L+"translation-accepted-by-the-builder", re != nil)
	if re == nil {
		return
	}
	verif.Assert(L+"same-name-description-salience", re.RuleName == c.rule && re.RuleDescription == c.tag && re.Salience == c18Salience(t*40+k))
	f := newFact("F", 0)
	verif.Assume(c.nz(f))
	pre := *f
	dc := ast.NewDataContext()
	dc.Add("F", f)
	kb.WorkingMemory.ResetAll()
	kb.InitializeContext(dc)
	ctx := context.Background()
	switch c.kind {
	case 2:
		can, cerr := re.Evaluate(ctx, dc, kb.WorkingMemory)
		verif.Assert(L+"condition-evaluates-without-error", cerr == nil)
		if cerr == nil {
			verif.Assert(L+"condition-value-equals-the-tree-as-nested", verif.Iff(can, c.refB(&pre)))
		}
	default:
		xerr := re.Execute(ctx, dc, kb.WorkingMemory)
		verif.Assert(L+"action-executes-without-error", xerr == nil)
		if xerr != nil {
			return
		}
		if c.kind == 0 {
			verif.Assert(L+"action-value-equals-the-tree-as-nested", f.RI == c.refI(&pre))
		} else {
			verif.Assert(L+"action-value-equals-the-tree-as-nested", verif.SameFloat64(f.RF, c.refF(&pre)))
		}
	}
	verif.Event("case", c.rule)
}

// VerifC18All enumerates every generated family part (explored in parallel in one process).
func VerifC18All() { VerifC18(verif.Choice("part", c18Templates)) }

// VerifC18Set: a JSON rule SET (array) - every rule gets its OWN name, description and salience (a rule that omits desc /
// salience gets the defaults, not its predecessor's values), and a set with a malformed non-first element (no when, no then,
// null, no name) is rejected as a whole.
func VerifC18Set() {
	lib := zzkb.LoadLibrary("c18_set")
	log := zzkb.StepLog("c18_set")
	verif.Reach("c18:set")
	kb := lib.GetKnowledgeBase("T", "1")
	type want struct {
		name, desc string
		sal        int
	}
	for _, w := range []want{{"SA", "first of a set", 7}, {"SB", "", 0}, {"SC", "third", -2}} {
		re := kb.RuleEntries[w.name]
		verif.Assert("C18:set:"+w.name+":translation-accepted-by-the-builder", re != nil)
		if re != nil {
			verif.Assert("C18:set:"+w.name+":same-name-description-salience", re.RuleName == w.name && re.RuleDescription == w.desc && re.Salience == w.sal)
		}
	}
	for i, what := range []string{"no-when", "no-then", "null-element", "no-name"} {
		verif.Assert("C18:set:malformed-non-first-element-is-rejected:"+what, len(log) > i+1 && log[i+1] == "buildjson:true")
		bad := lib.GetKnowledgeBase("BAD"+strconv.Itoa(i), "1")
		verif.Assert("C18:set:rejected-set-adds-no-rule:"+what, bad == nil || len(bad.RuleEntries) == 0)
	}
}
