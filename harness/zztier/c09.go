package zztier

// C09 — instances are faithful copies, mutually isolated, and safe to run concurrently.
//
// The real NewKnowledgeBaseInstance (KnowledgeBase.Clone, every node's Clone, WorkingMemory.Clone,
// IsIdentical) runs in the executor on a natively built library. Isolation and interference freedom are
// decided on the executor's heap: reachability (no shared mutable cell), graph isomorphism incl. node
// sharing and the five working-memory maps, and read/write footprints of creation and of two executions on
// independent symbolic facts. Disjoint footprints for all inputs => every interleaving of the two
// executions is data-race free and equivalent to a sequential one.

import (
	"github.com/hyperjumptech/grule-rule-engine/ast"
	"github.com/hyperjumptech/grule-rule-engine/engine"
	"github.com/hyperjumptech/grule-rule-engine/zzkb"
	verif "github.com/hyperjumptech/grule-rule-engine/zzverif"
)

// fields that Clone legitimately regenerates or drops (DESIGN §8 C09 F)
// The comparison follows every pointer / slice / map (node sharing and the five working-memory maps included) and
// compares the scalar fields declared meaning-bearing; other scalars (AstID, memo flags, caches a refactoring may add) are ignored.
const c09Skip = "skip:lock,DataContext,ValueNode,Expression.Value,ExpressionAtom.Value,Variable.Value,FunctionCall.Value,ArrayMapSelector.Value,Constant.WorkingMemory" +
	"|scalars:KnowledgeBase.Name,KnowledgeBase.Version,WorkingMemory.Name,WorkingMemory.Version,RuleName,RuleDescription,Salience,Deleted,Operator,Negated,VariableName,Variable.Name,FunctionName," +
	"IsAssign,IsPlusAssign,IsMinusAssign,IsDivAssign,IsMulAssign,Constant.Value"

type c09Listener struct {
	engine.GruleEngineListener
	fired []string
}

func VerifC09(tmpl string, maxCycle int) {
	L := func(s string) string { return s + "@" + tmpl }
	lib := zzkb.LoadLibrary(tmpl)
	if tbViaGRB {
		// "every successfully built OR LOADED knowledge base": the library under test is the one loaded back from the GRB image
		lib = reloadLibrary(lib)
		tmpl += "/loaded-from-GRB"
	}
	bp := lib.GetKnowledgeBase("T", "1")

	verif.FootprintBegin("create1")
	kb1, err1 := lib.NewKnowledgeBaseInstance("T", "1")
	verif.FootprintEnd("create1")
	verif.Assert(L("C09:instance-creation-succeeds"), err1 == nil && kb1 != nil)
	if err1 != nil || kb1 == nil {
		return
	}
	kb2, err2 := lib.NewKnowledgeBaseInstance("T", "1")
	verif.Assert(L("C09:second-instance-creation-succeeds"), err2 == nil && kb2 != nil)
	if err2 != nil || kb2 == nil {
		return
	}
	verif.Reach("c09:instances-created")

	// (1) faithful copy: same graph incl. sharing and the working-memory maps
	why := verif.Isomorphic(bp, kb1, c09Skip)
	verif.Assert(L("C09:instance-is-isomorphic-to-the-blueprint"), why == "")
	verif.Assert(L("C09:instance-snapshot-equals-blueprint-snapshot"), bp.GetSnapshot() == kb1.GetSnapshot())

	// (2) isolation: no mutable cell shared with the blueprint or with another instance
	verif.Assert(L("C09:instance-shares-no-mutable-state-with-the-blueprint"), verif.SharedCells(bp, kb1) == 0)
	verif.Assert(L("C09:instances-share-no-mutable-state"), verif.SharedCells(kb1, kb2) == 0)
	// creating an instance only reads the library
	verif.Assert(L("C09:model:instance-creation-does-not-write-the-library"), verif.FootprintWritesInto("create1", lib) == 0)
	verif.Assert(L("C09:model:footprint-not-empty"), verif.FootprintSize("create1") > 0)

	// (3) ownership: a run on its own facts touches only its own instance. By symmetry (every instance is made by the
	// same code) this holds for any instance, so two concurrent runs have W1 disjoint from R2+W2 and W2 from R1.
	kb3, err3 := lib.NewKnowledgeBaseInstance("T", "1")
	verif.Assert(L("C09:third-instance-creation-succeeds"), err3 == nil && kb3 != nil)
	if err3 != nil {
		return
	}
	f1 := newFact("F1", 0)
	dc1 := ast.NewDataContext()
	dc1.Add("F", f1)
	dc1.Add("N", smallInt("N1"))
	e1 := &engine.GruleEngine{MaxCycle: uint64(maxCycle)}
	verif.FootprintBegin("exec1")
	_ = e1.Execute(dc1, kb1)
	verif.FootprintEnd("exec1")
	verif.FootprintBegin("create4")
	kb4, err4 := lib.NewKnowledgeBaseInstance("T", "1")
	verif.FootprintEnd("create4")
	verif.Assert(L("C09:instance-creation-succeeds-after-others-ran"), err4 == nil && kb4 != nil)
	verif.Reach("c09:both-executed")
	verif.Assert(L("C09:model:a-run-does-not-write-the-library"), verif.FootprintWritesInto("exec1", lib) == 0)
	verif.Assert(L("C09:model:a-run-touches-no-other-instance"), verif.FootprintTouches("exec1", kb2, kb3) == 0)
	verif.Assert(L("C09:model:a-run-writes-no-package-level-variable"), verif.FootprintWritesGlobals("exec1") == 0)
	// the engine value is configuration (MaxCycle, listeners): goroutines may share one engine, so a run must not write it
	verif.Assert(L("C09:model:a-run-does-not-write-the-engine-value"), verif.FootprintWritesInto("exec1", e1) == 0)
	verif.Assert(L("C09:model:instance-creation-writes-no-package-level-variable"), verif.FootprintWritesGlobals("create4") == 0)
	verif.Assert(L("C09:model:instance-creation-touches-no-instance"), verif.FootprintTouches("create4", kb1, kb2, kb3) == 0)
	verif.Assert(L("C09:model:later-instance-creation-does-not-write-the-library"), verif.FootprintWritesInto("create4", lib) == 0)
	// executing one instance leaves the blueprint and the other instances as they were
	verif.Assert(L("C09:blueprint-unchanged-by-runs"), verif.Isomorphic(bp, kb3, c09Skip) == "")
	verif.Assert(L("C09:instances-still-share-nothing"), verif.SharedCells(kb1, kb4) == 0 && verif.SharedCells(bp, kb1) == 0)

	// (4) retracting / removing in one instance never changes another
	for name := range kb1.RuleEntries {
		kb1.RetractRule(name)
		kb1.RemoveRuleEntry(name)
		break
	}
	same := true
	for _, re := range kb3.RuleEntries {
		if re.Retracted || re.Deleted {
			same = false
		}
	}
	for _, re := range bp.RuleEntries {
		if re.Retracted || re.Deleted {
			same = false
		}
	}
	verif.Assert(L("C09:retract-and-remove-in-one-instance-leave-the-others-alone"), same && len(kb3.RuleEntries) == len(bp.RuleEntries))
}

// VerifC09Set enumerates the templates of a set.
func VerifC09Set(set string, maxCycle int) {
	ts := tbSets[set]
	VerifC09(ts[verif.Choice("template", len(ts))], maxCycle)
}

// VerifC09SetLoaded: the same on libraries loaded back from their GRB image.
func VerifC09SetLoaded(set string, maxCycle int) {
	tbViaGRB = true
	VerifC09Set(set, maxCycle)
}
