package zztier

// C20 (GRL text part) — the text an AST node contributes to the snapshot of its parent is written ONCE: for every node of a
// knowledge base built by the real parser, len(snapshot(node)) <= overhead(node) + sum of len(snapshot(child)) over its
// direct children. By induction over the tree the snapshot of a rule is linear in the number of nodes, hence in the length
// of the GRL text; a node kind that writes a child twice makes snapshots (which the listener computes for every node it
// closes) exponential in the nesting depth - a 100-byte rule that never finishes loading.
//
// The template contains every alternative of the expression grammar; the knowledge base is concrete, so this run enumerates
// its nodes (executed from SSA) - there is no symbolic input.

import (
	"github.com/hyperjumptech/grule-rule-engine/ast"
	"github.com/hyperjumptech/grule-rule-engine/zzkb"
	verif "github.com/hyperjumptech/grule-rule-engine/zzverif"
)

type snapWalk struct {
	nodes int
	slack map[string]int
}

func (s *snapWalk) check(kind string, own int, snap string, kids ...string) {
	s.nodes++
	sum := 0
	for _, k := range kids {
		sum += len(k)
	}
	// 32 bytes for tags and operator spellings, 4 per child for separators, 6x the node's own identifier / literal text (quoting may expand a byte to 6)
	verif.Assert("C20:snapshot-linear:"+kind+"-writes-each-child-once", len(snap) <= 32+4*len(kids)+6*own+sum)
	if d := len(snap) - 6*own - sum - 4*len(kids); d > s.slack[kind] {
		s.slack[kind] = d
	}
}

func (s *snapWalk) expr(e *ast.Expression) string {
	if e == nil {
		return ""
	}
	snap := e.GetSnapshot()
	s.check("Expression", 0, snap, s.expr(e.LeftExpression), s.expr(e.RightExpression), s.expr(e.SingleExpression), s.atom(e.ExpressionAtom))
	return snap
}

func (s *snapWalk) atom(e *ast.ExpressionAtom) string {
	if e == nil {
		return ""
	}
	snap := e.GetSnapshot()
	kind := "ExpressionAtom"
	switch {
	case e.ArrayMapSelector != nil:
		kind += "(selector)"
	case e.FunctionCall != nil && e.ExpressionAtom != nil:
		kind += "(method)"
	case e.ExpressionAtom != nil && len(e.VariableName) > 0:
		kind += "(member)"
	case e.ExpressionAtom != nil:
		kind += "(negation)"
	}
	s.check(kind, len(e.VariableName), snap, s.variable(e.Variable), s.call(e.FunctionCall), s.atom(e.ExpressionAtom), s.sel(e.ArrayMapSelector), s.constant(e.Constant))
	return snap
}

func (s *snapWalk) variable(e *ast.Variable) string {
	if e == nil {
		return ""
	}
	snap := e.GetSnapshot()
	s.check("Variable", len(e.Name), snap, s.variable(e.Variable), s.sel(e.ArrayMapSelector))
	return snap
}

func (s *snapWalk) call(e *ast.FunctionCall) string {
	if e == nil {
		return ""
	}
	snap := e.GetSnapshot()
	var kids []string
	if e.ArgumentList != nil {
		al := e.ArgumentList.GetSnapshot()
		var args []string
		for _, a := range e.ArgumentList.Arguments {
			args = append(args, s.expr(a))
		}
		s.check("ArgumentList", 0, al, args...)
		kids = append(kids, al)
	}
	s.check("FunctionCall", len(e.FunctionName), snap, kids...)
	return snap
}

func (s *snapWalk) sel(e *ast.ArrayMapSelector) string {
	if e == nil {
		return ""
	}
	snap := e.GetSnapshot()
	s.check("ArrayMapSelector", 0, snap, s.expr(e.Expression))
	return snap
}

func (s *snapWalk) constant(e *ast.Constant) string {
	if e == nil {
		return ""
	}
	snap := e.GetSnapshot()
	s.check("Constant", len(e.GrlText), snap)
	return snap
}

func VerifC20SnapshotLinear(tmpl string) {
	lib := zzkb.LoadLibrary(tmpl)
	kb := lib.GetKnowledgeBase("T", "1")
	s := &snapWalk{slack: map[string]int{}}
	for _, name := range sortedRuleNames(kb) {
		re := kb.RuleEntries[name]
		when := s.expr(re.WhenScope.Expression)
		s.check("WhenScope", 0, re.WhenScope.GetSnapshot(), when)
		var thens []string
		for _, te := range re.ThenScope.ThenExpressionList.ThenExpressions {
			var kids []string
			if te.Assignment != nil {
				a := te.Assignment
				as := a.GetSnapshot()
				s.check("Assignment", 0, as, s.variable(a.Variable), s.expr(a.Expression))
				kids = append(kids, as)
			}
			kids = append(kids, s.atom(te.ExpressionAtom))
			ts := te.GetSnapshot()
			s.check("ThenExpression", 0, ts, kids...)
			thens = append(thens, ts)
		}
		tl := re.ThenScope.ThenExpressionList.GetSnapshot()
		s.check("ThenExpressionList", 0, tl, thens...)
		s.check("ThenScope", 0, re.ThenScope.GetSnapshot(), tl)
		s.check("RuleEntry", len(re.RuleName)+len(re.RuleDescription), re.GetSnapshot(), re.WhenScope.GetSnapshot(), re.ThenScope.GetSnapshot())
	}
	if s.nodes > 0 {
		verif.Reach("c20:snapshot-nodes-walked")
	}
	verif.Event("snapshot-nodes", s.nodes)
	for _, k := range []string{"Expression", "ExpressionAtom", "ExpressionAtom(selector)", "ExpressionAtom(method)", "ExpressionAtom(member)", "ExpressionAtom(negation)", "Variable", "FunctionCall", "ArgumentList", "ArrayMapSelector", "Constant", "WhenScope", "Assignment", "ThenExpression", "ThenExpressionList", "ThenScope", "RuleEntry"} {
		verif.Event("overhead", k, s.slack[k])
	}
}

// VerifC20SnapshotCost: the cost of computing a rule's snapshot is linear in the rule's text. The listener computes the
// snapshot of every node it closes, so a node kind that computes a child's snapshot twice makes loading exponential in
// the nesting depth even when the resulting text is unchanged. Concrete deep chains of every nesting construct of the
// grammar; cost = SSA instructions under gosym (natively: time, see verif.Cost).
func VerifC20SnapshotCost(tmpl string) {
	lib := zzkb.LoadLibrary(tmpl)
	kb := lib.GetKnowledgeBase("T", "1")
	names := sortedRuleNames(kb)
	re := kb.RuleEntries[names[verif.Choice("rule", len(names))]]
	steps := verif.Cost(func() { _ = re.GetSnapshot() })
	verif.Reach("c20:snapshot-cost-measured")
	verif.Event("snapshot-cost", re.RuleName, len(re.GrlText))
	verif.Assert("C20:snapshot-cost-linear:"+re.RuleDescription, steps <= 600*len(re.GrlText))
}
