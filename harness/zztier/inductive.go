package zztier

// Inductive memo step (C01 / C02 / C13, DESIGN §8 C01 (2)).
//
// INV: every node of the working memory with Evaluated == true remembers the value a memo-free evaluation gives on
// the CURRENT facts. INV holds after ResetAll and is preserved by evaluation; this harness checks that it is preserved
// by ONE rule's action list (assignments, Forget/Changed, Retract ...) executed from an arbitrary fact state with the
// memo "fully evaluated and consistent" (and from three thinner memo states). INV implies C01/C02 for every cycle, so
// together with the bounded runs this covers runs of ANY length for the template.

import (
	"context"
	"reflect"
	"sort"

	"github.com/hyperjumptech/grule-rule-engine/ast"
	"github.com/hyperjumptech/grule-rule-engine/engine"
	verif "github.com/hyperjumptech/grule-rule-engine/zzverif"
)

type pureSet struct {
	exprs map[*ast.Expression]bool
	atoms map[*ast.ExpressionAtom]bool
}

func (p *pureSet) expr(e *ast.Expression, d int) {
	if e == nil || d > 64 || p.exprs[e] {
		return
	}
	p.exprs[e] = true
	p.expr(e.LeftExpression, d+1)
	p.expr(e.RightExpression, d+1)
	p.expr(e.SingleExpression, d+1)
	p.atom(e.ExpressionAtom, d+1)
}

func (p *pureSet) atom(a *ast.ExpressionAtom, d int) {
	if a == nil || d > 64 || p.atoms[a] {
		return
	}
	p.atoms[a] = true
	p.atom(a.ExpressionAtom, d+1)
	if a.FunctionCall != nil && a.FunctionCall.ArgumentList != nil {
		for _, x := range a.FunctionCall.ArgumentList.Arguments {
			p.expr(x, d+1)
		}
	}
	if a.ArrayMapSelector != nil {
		p.expr(a.ArrayMapSelector.Expression, d+1)
	}
	p.variable(a.Variable, d+1)
}

func (p *pureSet) variable(v *ast.Variable, d int) {
	if v == nil || d > 64 {
		return
	}
	if v.ArrayMapSelector != nil {
		p.expr(v.ArrayMapSelector.Expression, d+1)
	}
	p.variable(v.Variable, d+1)
}

// pureRoots: conditions and right-hand sides of assignments (evaluating them has no effect on the facts);
// statement calls of action lists are not evaluated by the harness.
func pureRoots(kb *ast.KnowledgeBase) (*pureSet, []*ast.Expression) {
	p := &pureSet{exprs: map[*ast.Expression]bool{}, atoms: map[*ast.ExpressionAtom]bool{}}
	var roots []*ast.Expression
	for _, n := range sortedRuleNames(kb) {
		re := kb.RuleEntries[n]
		if re.WhenScope != nil && re.WhenScope.Expression != nil {
			roots = append(roots, re.WhenScope.Expression)
		}
		if re.ThenScope != nil && re.ThenScope.ThenExpressionList != nil {
			for _, te := range re.ThenScope.ThenExpressionList.ThenExpressions {
				if te.Assignment != nil {
					if te.Assignment.Expression != nil {
						roots = append(roots, te.Assignment.Expression)
					}
					if te.Assignment.Variable != nil {
						p.variable(te.Assignment.Variable, 0)
					}
				}
			}
		}
	}
	for _, r := range roots {
		p.expr(r, 0)
	}
	return p, roots
}

// sameValue compares two reflect.Values of the interpreter's scalar kinds without forking.
func sameValue(a, b reflect.Value) bool {
	if a.IsValid() != b.IsValid() {
		return false
	}
	if !a.IsValid() {
		return true
	}
	if a.Kind() != b.Kind() {
		return false
	}
	switch a.Kind() {
	case reflect.Bool:
		return verif.Iff(a.Bool(), b.Bool())
	case reflect.Int, reflect.Int8, reflect.Int16, reflect.Int32, reflect.Int64:
		return a.Int() == b.Int()
	case reflect.Uint, reflect.Uint8, reflect.Uint16, reflect.Uint32, reflect.Uint64:
		return a.Uint() == b.Uint()
	case reflect.Float32, reflect.Float64:
		return verif.SameFloat64(a.Float(), b.Float())
	case reflect.String:
		return a.String() == b.String()
	}
	return true // handles on containers (struct / pointer / slice / map values) are live views, not remembered values
}

func sortedKeysE(m map[string]*ast.Expression) []string {
	var ks []string
	for k := range m {
		ks = append(ks, k)
	}
	sort.Strings(ks)
	return ks
}

func sortedKeysA(m map[string]*ast.ExpressionAtom) []string {
	var ks []string
	for k := range m {
		ks = append(ks, k)
	}
	sort.Strings(ks)
	return ks
}

// VerifMemoStep: memoState 0 = everything evaluated, 1 = nothing, 2 / 3 = every other node (two phases).
func VerifMemoStep(set string, memoState int) {
	ts := tbSets[set]
	tmpl := ts[verif.Choice("template", len(ts))]
	w := tbSetup(tmpl, 0, false)
	// the engine's own preparation of a call (DEFUNC, ResetAll, Reset, InitializeContext)
	eng := &engine.GruleEngine{MaxCycle: 1}
	_, _ = eng.FetchMatchingRules(w.dc, w.ref)
	_, _ = eng.FetchMatchingRules(w.dc, w.kb) // last: DEFUNC in the data context is bound to the instance under test
	pure, roots := pureRoots(w.kb)
	wm := w.kb.WorkingMemory
	// (1) memo fully evaluated and consistent with the current facts
	wm.ResetAll()
	for _, r := range roots {
		_, _ = r.Evaluate(w.dc, wm)
	}
	callsAfterFill := w.f.HeavyCalls + w.f.GetICalls + w.f.ItemCalls()
	// C13 (inductive form): with the memo filled, one more evaluation sweep over all rules runs no counted call
	for _, n := range w.names {
		_, _ = w.kb.RuleEntries[n].Evaluate(context.Background(), w.dc, wm)
	}
	verif.Assert(w.L("C13:a-sweep-over-a-filled-memo-runs-no-counted-call"), w.f.HeavyCalls+w.f.GetICalls+w.f.ItemCalls() == callsAfterFill)
	// thinner memo states
	ek, ak := sortedKeysE(wm.VerifExpressions()), sortedKeysA(wm.VerifAtoms())
	for i, k := range ek {
		if memoState == 1 || (memoState == 2 && i%2 == 0) || (memoState == 3 && i%2 == 1) {
			wm.VerifExpressions()[k].Evaluated = false
		}
	}
	for i, k := range ak {
		if memoState == 1 || (memoState == 2 && i%2 == 1) || (memoState == 3 && i%2 == 0) {
			wm.VerifAtoms()[k].Evaluated = false
		}
	}
	// (2) one step: the action list of an arbitrary rule (its condition need not hold: the step starts from an arbitrary state)
	rule := w.names[verif.Choice("rule", len(w.names))]
	re := w.kb.RuleEntries[rule]
	w.dc.SetRuleEntry(re)
	xerr := re.Execute(context.Background(), w.dc, wm)
	verif.Reach("memo:step-executed")
	if xerr != nil {
		verif.Reach("memo:step-failed")
	}
	// (3) INV: every remembered value is the fresh one
	inv := func(rule string) {
		rwm := w.ref.WorkingMemory
		rwm.ResetAll()
		for _, n := range w.names {
			if rr := w.ref.RuleEntries[n]; rr != nil && rr.WhenScope != nil {
				deepReset(rr.WhenScope.Expression, 0)
			}
		}
		refE, refA := rwm.VerifExpressions(), rwm.VerifAtoms()
		for _, k := range ek {
			n := wm.VerifExpressions()[k]
			if !pure.exprs[n] || !n.Evaluated {
				continue
			}
			rn := refE[k]
			if rn == nil {
				continue
			}
			deepReset(rn, 0)
			fv, ferr := rn.Evaluate(w.dc, rwm)
			if ferr != nil {
				verif.Assert(w.L("C01:memo-invariant:no-value-remembered-for-an-expression-that-now-fails:"+rule), false)
				continue
			}
			verif.Reach("memo:remembered-expression-checked")
			verif.Assert(w.L("C01:memo-invariant:remembered-expression-value-is-the-fresh-one:after-"+rule), sameValue(n.Value, fv))
			verif.Assert(w.L("C02:memo-invariant:remembered-expression-value-is-the-fresh-one:after-"+rule), sameValue(n.Value, fv))
		}
		for _, k := range ak {
			n := wm.VerifAtoms()[k]
			if !pure.atoms[n] || !n.Evaluated {
				continue
			}
			rn := refA[k]
			if rn == nil {
				continue
			}
			deepResetAtom(rn, 0)
			fv, ferr := rn.Evaluate(w.dc, rwm)
			if ferr != nil {
				verif.Assert(w.L("C01:memo-invariant:no-value-remembered-for-an-atom-that-now-fails:"+rule), false)
				continue
			}
			verif.Assert(w.L("C01:memo-invariant:remembered-atom-value-is-the-fresh-one:after-"+rule), sameValue(n.Value, fv))
			verif.Assert(w.L("C02:memo-invariant:remembered-atom-value-is-the-fresh-one:after-"+rule), sameValue(n.Value, fv))
		}
	}
	inv(rule)
	// (4) the other kind of step: the evaluation phase of the next cycle (every rule's condition is evaluated on the memo as
	// the action list left it). INV must hold again afterwards - in particular an evaluation that FAILS leaves nothing
	// remembered, and whatever a successful evaluation remembers is the value it computed on the current facts.
	for _, n := range w.names {
		_, _ = w.kb.RuleEntries[n].Evaluate(context.Background(), w.dc, wm)
	}
	verif.Reach("memo:sweep-after-the-step")
	inv(rule + "+evaluation-sweep")
}

func VerifMemoStepLoaded(set string, memoState int) {
	tbViaGRB = true
	VerifMemoStep(set, memoState)
}
