package zztier

// C04 — rule actions write exactly the computed values to exactly the addressed facts (Tier B, assignment family).
// One rule = one addressing form x kind conversion; the expected post-value is a Go expression over the PRE-facts
// (reference: Appendix C assignment conversion); every other fact cell must be unchanged (frame condition).

import (
	"context"

	"github.com/hyperjumptech/grule-rule-engine/ast"
	"github.com/hyperjumptech/grule-rule-engine/model"
	"github.com/hyperjumptech/grule-rule-engine/zzkb"
	verif "github.com/hyperjumptech/grule-rule-engine/zzverif"
)

type c04Case struct {
	rule   string
	assume func(p *factSnap) bool
	expect func(p *factSnap, f *Fact, w *tbWorld) bool
}

var c04Cases = []c04Case{
	{"A00", func(p *factSnap) bool { return verif.And(p.f.J >= -128, p.f.J <= 127) }, func(p *factSnap, f *Fact, w *tbWorld) bool { return int64(f.I8) == p.f.J }},
	{"A01", func(p *factSnap) bool { return verif.And(p.f.X > -1, p.f.X < 65536) }, func(p *factSnap, f *Fact, w *tbWorld) bool { return f.U16 == uint16(p.f.X) }},
	{"A02", nil, func(p *factSnap, f *Fact, w *tbWorld) bool {
		return verif.SameFloat64(float64(f.F32), float64(float32(float64(p.f.I))))
	}},
	{"A03", nil, func(p *factSnap, f *Fact, w *tbWorld) bool { return verif.SameFloat64(f.X, float64(p.f.U8)) }},
	{"A04", nil, func(p *factSnap, f *Fact, w *tbWorld) bool { return f.Arr[1] == int64(p.f.X) }},
	{"A05", nil, func(p *factSnap, f *Fact, w *tbWorld) bool { return verif.SameFloat64(f.FA[0], float64(p.f.I)) }},
	{"A06", nil, func(p *factSnap, f *Fact, w *tbWorld) bool { return f.M["a"] == p.f.I }},
	{"A07", nil, func(p *factSnap, f *Fact, w *tbWorld) bool { v, ok := f.M["c"]; return verif.And(ok, v == p.f.J) }},
	{"A08", nil, func(p *factSnap, f *Fact, w *tbWorld) bool { return *f.PI == p.f.I }},
	{"A09", nil, func(p *factSnap, f *Fact, w *tbWorld) bool { return f.P.V == int64(p.f.I8) }},
	{"A10", nil, func(p *factSnap, f *Fact, w *tbWorld) bool { return verif.SameFloat64(f.N.W, float64(p.f.I)) }},
	{"A11", nil, func(p *factSnap, f *Fact, w *tbWorld) bool { return w.topN() == p.f.I+1 }},
	{"A12", nil, func(p *factSnap, f *Fact, w *tbWorld) bool { return f.S == p.f.R+"x" }},
	{"A13", nil, func(p *factSnap, f *Fact, w *tbWorld) bool { return verif.Iff(f.B, verif.Not(p.f.C)) }},
	{"A14", nil, func(p *factSnap, f *Fact, w *tbWorld) bool { return f.T.Equal(p.f.T2) }},
	{"A15", nil, func(p *factSnap, f *Fact, w *tbWorld) bool { return verif.And(f.I == p.f.J+1, f.K == (p.f.J+1)*2) }},
	{"A16", nil, func(p *factSnap, f *Fact, w *tbWorld) bool { return f.Arr[2] == p.arr[2]+p.f.I }},
	{"A17", nil, func(p *factSnap, f *Fact, w *tbWorld) bool { return f.M["b"] == p.mb-p.f.J }},
	{"A18", nil, func(p *factSnap, f *Fact, w *tbWorld) bool { return uint64(f.In) == p.f.U64 }},
	{"A19", func(p *factSnap) bool { return p.f.I >= 0 }, func(p *factSnap, f *Fact, w *tbWorld) bool { return int64(f.U32) == p.f.I }},
	{"A20", nil, func(p *factSnap, f *Fact, w *tbWorld) bool { return f.I32 == int32(p.f.Y) }},
	{"A21", nil, func(p *factSnap, f *Fact, w *tbWorld) bool { return f.P == f.Q && f.P.V == p.q.V }},
	{"A22", nil, func(p *factSnap, f *Fact, w *tbWorld) bool { return sameJSONLeaf(w.json["a"], p.f.I) }},
	{"A23", nil, func(p *factSnap, f *Fact, w *tbWorld) bool {
		return sameJSONLeaf(w.json["b"].(map[string]interface{})["c"], p.f.X)
	}},
	{"A24", nil, func(p *factSnap, f *Fact, w *tbWorld) bool {
		return sameJSONLeaf(w.json["arr"].([]interface{})[1], p.f.X+1.5)
	}},
	{"A25", nil, func(p *factSnap, f *Fact, w *tbWorld) bool { return sameJSONLeaf(w.json["s"], p.f.R+"x") }},
	{"A26", nil, func(p *factSnap, f *Fact, w *tbWorld) bool { return sameJSONLeaf(w.json["flag"], verif.Not(p.f.C)) }},
	{"A27", nil, func(p *factSnap, f *Fact, w *tbWorld) bool { return sameJSONLeaf(w.json["a"], w.preJ.bc.(float64)*2) }},
	{"A28", nil, func(p *factSnap, f *Fact, w *tbWorld) bool { return f.S == p.f.S+"x" }},
	{"A29", func(p *factSnap) bool { return verif.And(p.f.In >= 0, p.f.In <= 2) }, func(p *factSnap, f *Fact, w *tbWorld) bool {
		want := p.arr[1] + 1
		if p.f.In == 0 {
			want = 10
		} else if p.f.In == 2 {
			want = p.arr[2] + 1
		}
		return f.K == want
	}},
	{"A30", nil, func(p *factSnap, f *Fact, w *tbWorld) bool { return verif.And(f.K == 10, f.RI == p.ma+1) }},
	{"A31", nil, func(p *factSnap, f *Fact, w *tbWorld) bool { return f.Hits == p.f.Hits+7 }},
	{"A32", nil, func(p *factSnap, f *Fact, w *tbWorld) bool { return int64(f.Cs[0]) == p.f.I }},
	{"A33", nil, func(p *factSnap, f *Fact, w *tbWorld) bool {
		return verif.And(int64(f.Cs[1]) == int64(p.cs[1])+2, f.Cs[0] == p.cs[0])
	}},
}

func VerifC04Assign() {
	c := c04Cases[verif.Choice("case", len(c04Cases))]
	w := &tbWorld{tmpl: "a_assign"}
	w.lib = zzkb.LoadLibrary("a_assign")
	var err error
	w.kb, err = w.lib.NewKnowledgeBaseInstance("T", "1")
	if err != nil {
		verif.Assert(w.L("C09:instance-creation-succeeds"), false)
		return
	}
	w.f = newFact("F", 0)
	w.dc = ast.NewDataContext()
	w.dc.Add("F", w.f)
	w.dc.Add("N", smallInt("N"))
	w.json = newJSONTree("J")
	if dcx, ok := w.dc.(*ast.DataContext); ok {
		dcx.ObjectStore["J"] = model.VerifJSONNode(w.json, "J")
	}
	w.preJ = snapJSON(w.json)
	pre := snapFact(w.f, w.topN())
	if c.assume != nil {
		verif.Assume(c.assume(&pre)) // the property: values within the destination's range
	}
	w.kb.WorkingMemory.ResetAll()
	w.kb.InitializeContext(w.dc)
	re := w.kb.RuleEntries[c.rule]
	verif.Reach("c04:case")
	xerr := re.Execute(context.Background(), w.dc, w.kb.WorkingMemory)
	verif.Assert("C04:assign:"+c.rule+":"+re.RuleDescription+":no-error", xerr == nil)
	if xerr != nil {
		return
	}
	verif.Assert("C04:assign:"+c.rule+":"+re.RuleDescription+":value-visible-in-the-caller's-object", c.expect(&pre, w.f, w))
	may := map[string]bool{}
	tbTargets(re, may)
	if c.rule == "A07" {
		pre.mlen++ // a new entry is the addressed effect
	}
	if c.rule == "A21" {
		may["F.P.V"], may["F.P.W"] = true, true
	}
	w.frame(pre, w.topN(), may)
	w.frameJSON(w.preJ, may)
	verif.Event("case", c.rule)
}
