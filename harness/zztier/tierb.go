package zztier

// Tier B — real ASTs, symbolic facts. Imported knowledge bases (built natively by the real
// builder) are executed end to end: engine, AST interpreter, reflectmath, GoValueNode through
// gosym's reflect model. The C01/C02 oracle re-evaluates a rule's condition from scratch on an
// independently instantiated reference copy after WorkingMemory.ResetAll (same interpreter, no memo).

import (
	"context"
	"reflect"
	"sort"
	"strings"
	"time"

	"github.com/hyperjumptech/grule-rule-engine/ast"
	"github.com/hyperjumptech/grule-rule-engine/engine"
	"github.com/hyperjumptech/grule-rule-engine/model"
	"github.com/hyperjumptech/grule-rule-engine/zzkb"
	verif "github.com/hyperjumptech/grule-rule-engine/zzverif"
)

type tbWorld struct {
	out    *Sub // a second fact ("Out") that the templates only write
	json   map[string]interface{}
	preJ   jsonSnap
	tmpl   string
	lib    *ast.KnowledgeLibrary
	kb     *ast.KnowledgeBase
	ref    *ast.KnowledgeBase
	dc     ast.IDataContext
	f      *Fact
	names  []string
	fired  []string
	cycles uint64
	nEval  int
	// removal of a rule while the run is in progress (C16)
	removing       bool
	removeAt       int
	removeName     string
	removedEntries map[*ast.RuleEntry]bool
}

// c08 mirrors: in a later call on a reused instance the C01/C02 oracle failures are C08 violations as well

// L appends the template to an assertion label, so that findings are identified per template.
func (w *tbWorld) L(label string) string { return label + "@" + w.tmpl }

func sortedRuleNames(kb *ast.KnowledgeBase) []string {
	var keys []string
	for k := range kb.RuleEntries {
		keys = append(keys, k)
	}
	sort.Strings(keys)
	return keys
}

// permuteRules makes the iteration order of kb.RuleEntries a quantified input: the map is rebuilt with
// its entries inserted in a permutation chosen by Choice (gosym iterates in insertion order; natively a
// small Go map iterates in insertion order up to rotation, and the replay retries until it matches).
func permuteRules(kb *ast.KnowledgeBase, permute bool) {
	keys := sortedRuleNames(kb)
	m := make(map[string]*ast.RuleEntry, len(keys))
	rest := keys
	for len(rest) > 0 {
		k := 0
		if permute && len(rest) > 1 {
			k = verif.Choice("rule-order", len(rest))
		}
		m[rest[k]] = kb.RuleEntries[rest[k]]
		rest = append(append([]string{}, rest[:k]...), rest[k+1:]...)
	}
	kb.RuleEntries = m
}

// deepReset clears the memo of every node reachable from e by walking the tree itself, so that the
// reference evaluation does not depend on the working-memory maps (whose correctness is under test).
func deepReset(e *ast.Expression, depth int) {
	if e == nil || depth > 64 {
		return
	}
	e.Evaluated = false
	e.Value = reflect.Value{} // amnesia: as on an instance that has never evaluated anything (a failing node must not leak an old value)
	deepReset(e.LeftExpression, depth+1)
	deepReset(e.RightExpression, depth+1)
	deepReset(e.SingleExpression, depth+1)
	deepResetAtom(e.ExpressionAtom, depth+1)
}

func deepResetAtom(a *ast.ExpressionAtom, depth int) {
	if a == nil || depth > 64 {
		return
	}
	a.Evaluated = false
	a.Value, a.ValueNode = reflect.Value{}, nil
	deepResetAtom(a.ExpressionAtom, depth+1)
	if a.FunctionCall != nil {
		a.FunctionCall.Value = reflect.Value{}
	}
	if a.FunctionCall != nil && a.FunctionCall.ArgumentList != nil {
		for _, x := range a.FunctionCall.ArgumentList.Arguments {
			deepReset(x, depth+1)
		}
	}
	if a.ArrayMapSelector != nil {
		a.ArrayMapSelector.Value = reflect.Value{}
		deepReset(a.ArrayMapSelector.Expression, depth+1)
	}
	deepResetVar(a.Variable, depth+1)
}

func deepResetVar(v *ast.Variable, depth int) {
	if v == nil || depth > 64 {
		return
	}
	v.Value, v.ValueNode = reflect.Value{}, nil
	if v.ArrayMapSelector != nil {
		v.ArrayMapSelector.Value = reflect.Value{}
		deepReset(v.ArrayMapSelector.Expression, depth+1)
	}
	deepResetVar(v.Variable, depth+1)
}

// fresh evaluates rule `name` from scratch on the current facts (reference copy, memo cleared).
func (w *tbWorld) fresh(name string) bool {
	w.ref.WorkingMemory.ResetAll()
	re := w.ref.RuleEntries[name]
	if re == nil {
		return false
	}
	if re.WhenScope != nil {
		deepReset(re.WhenScope.Expression, 0)
	}
	hc, gc, ic, isc := w.f.HeavyCalls, w.f.GetICalls, w.f.ItemCalls(), w.f.ItemsCalls
	can, err := re.Evaluate(context.Background(), w.dc, w.ref.WorkingMemory)
	w.f.HeavyCalls, w.f.GetICalls, w.f.ItemsCalls = hc, gc, isc // the oracle's own evaluations are not counted
	if len(w.f.items) > 0 {
		w.f.items[0].Calls = ic
	}
	if err != nil {
		return false
	}
	return can
}

// freshFails: does a memo-free evaluation of the rule's condition fail (error or panic) on the current facts?
func (w *tbWorld) freshFails(name string) bool {
	w.ref.WorkingMemory.ResetAll()
	re := w.ref.RuleEntries[name]
	if re == nil {
		return false
	}
	if re.WhenScope != nil {
		deepReset(re.WhenScope.Expression, 0)
	}
	hc, gc, ic, isc := w.f.HeavyCalls, w.f.GetICalls, w.f.ItemCalls(), w.f.ItemsCalls
	_, err := re.Evaluate(context.Background(), w.dc, w.ref.WorkingMemory)
	w.f.HeavyCalls, w.f.GetICalls, w.f.ItemsCalls = hc, gc, isc
	if len(w.f.items) > 0 {
		w.f.items[0].Calls = ic
	}
	return err != nil
}

// failing templates: firing is additionally checked against "the condition does not FAIL now" under a C14 label
var tbFailingTemplates = map[string]bool{"b_kind2": true, "b_fail": true, "b_nilptr": true, "b_parenfail": true, "b_kind": true, "b_heal": true}

func (w *tbWorld) BeginCycle(ctx context.Context, cycle uint64) { w.cycles = cycle }

func (w *tbWorld) EvaluateRuleEntry(ctx context.Context, cycle uint64, e *ast.RuleEntry, cand bool) {
	w.nEval++
	if w.removing {
		verif.Assert(w.L("C16:rule-removed-during-the-run-is-never-evaluated-again"), !w.removedEntries[e] && !e.Deleted)
		return
	}
	f := w.fresh(e.RuleName)
	verif.Assert(w.L("C02:satisfied-rule-is-reported-candidate:"+e.RuleName), verif.Implies(f, cand))
	verif.Assert(w.L("C01:candidate-only-when-the-condition-holds-now:"+e.RuleName), verif.Implies(cand, f))
	if strings.HasSuffix(w.tmpl, "/second-call") {
		verif.Assert(w.L("C08:candidate-status-as-on-a-fresh-instance:"+e.RuleName), verif.Iff(f, cand))
	}
	verif.Event("EV", cycle, e.RuleName, cand)
}

func (w *tbWorld) ExecuteRuleEntry(ctx context.Context, cycle uint64, e *ast.RuleEntry) {
	if w.removing {
		verif.Assert(w.L("C16:rule-removed-during-the-run-is-never-fired-again"), !w.removedEntries[e] && !e.Deleted)
		if len(w.fired) == w.removeAt && e.RuleName != w.removeName {
			// the host (here: a listener) removes ANOTHER rule of this instance while the run is in progress
			if re := w.kb.RuleEntries[w.removeName]; re != nil {
				w.removedEntries[re] = true
				w.kb.RemoveRuleEntry(w.removeName)
				verif.Reach("tierB:rule-removed-during-the-run")
			}
		}
		w.fired = append(w.fired, e.RuleName)
		verif.Event("EX", cycle, e.RuleName)
		return
	}
	verif.Assert(w.L("C01:fires-only-when-the-condition-holds-now:"+e.RuleName), w.fresh(e.RuleName))
	if tbFailingTemplates[strings.TrimSuffix(w.tmpl, "/loaded-from-GRB")] {
		verif.Assert(w.L("C14:rule-whose-condition-fails-now-does-not-fire:"+e.RuleName), !w.freshFails(e.RuleName))
	}
	verif.Assert(w.L("C01:fired-rule-is-active:"+e.RuleName), !e.Retracted && !e.Deleted)
	w.fired = append(w.fired, e.RuleName)
	verif.Event("EX", cycle, e.RuleName)
}

// tbViaGRB: when set, the knowledge base under test is the one obtained by storing the built one and loading it again
// (the loader rebuilds the working-memory index maps: C02 / C12).
var tbViaGRB bool

func reloadLibrary(lib *ast.KnowledgeLibrary) *ast.KnowledgeLibrary {
	wr := &vcWriter{}
	if err := lib.StoreKnowledgeBaseToWriter(wr, "T", "1"); err != nil {
		verif.Stop("store failed")
	}
	lib2 := ast.NewKnowledgeLibrary()
	kb2, err, pan := loadKB(&vcReader{data: wr.buf, limit: len(wr.buf)}, true, lib2)
	if err != nil || pan || kb2 == nil {
		verif.Assert("C12:load-succeeds-on-the-full-stream", false)
		verif.Stop("load failed")
	}
	return lib2
}

func tbSetup(tmpl string, shape int, permute bool) *tbWorld {
	w := &tbWorld{tmpl: tmpl}
	w.lib = zzkb.LoadLibrary(tmpl)
	if tbViaGRB {
		w.lib = reloadLibrary(w.lib)
		w.tmpl = tmpl + "/loaded-from-GRB"
	}
	var err error
	w.kb, err = w.lib.NewKnowledgeBaseInstance("T", "1")
	verif.Assert(w.L("C09:instance-creation-succeeds"), err == nil)
	if err != nil {
		verif.Stop("no instance")
	}
	w.ref, err = w.lib.NewKnowledgeBaseInstance("T", "1")
	if err != nil {
		verif.Stop("no instance")
	}
	permuteRules(w.kb, permute)
	w.names = sortedRuleNames(w.kb)
	w.f = newFact("F", shape)
	w.dc = ast.NewDataContext()
	w.dc.Add("F", w.f)
	w.dc.Add("N", smallInt("N"))
	w.out = &Sub{V: smallInt("Out.V"), S: "out"}
	w.dc.Add("Out", w.out)
	// a JSON fact (decoded tree with symbolic leaves), as DataContext.AddJSON would register it
	w.json = newJSONTree("J")
	if dcx, ok := w.dc.(*ast.DataContext); ok {
		dcx.ObjectStore["J"] = model.VerifJSONNode(w.json, "J")
	}
	return w
}

// ---------------------------------------------------------------- frame condition (C04)

// tbTargets lists the fact paths the fired rule's action list may change: the textual targets of its
// assignments, plus the documented effects of the mutating fact methods of the fact universe.
func tbTargets(re *ast.RuleEntry, may map[string]bool) {
	if re.ThenScope == nil || re.ThenScope.ThenExpressionList == nil {
		return
	}
	for _, te := range re.ThenScope.ThenExpressionList.ThenExpressions {
		if te.Assignment != nil && te.Assignment.Variable != nil {
			t := strings.ReplaceAll(te.Assignment.Variable.GrlText, " ", "")
			may[t] = true
			// a computed selector (F.Arr[F.In], F.M["" + "a"]) may address any element of its container
			if i, j := strings.Index(t, "["), strings.Index(t, "]"); i > 0 && j > i {
				inner := t[i+1 : j]
				lit := len(inner) > 0 && (inner[0] == '"' && strings.Count(inner, `"`) == 2 && inner[len(inner)-1] == '"' || strings.Trim(inner, "0123456789") == "")
				if !lit {
					for _, k := range []string{"[0]", "[1]", "[2]", `["a"]`, `["b"]`} {
						may[t[:i]+k+t[j+1:]] = true
					}
				}
			}
		}
		if te.ExpressionAtom != nil {
			t := te.ExpressionAtom.GrlText
			switch {
			case strings.Contains(t, "Bump("):
				may["F.I"] = true
			case strings.Contains(t, "Close("):
				may["F.C"] = true
			case strings.Contains(t, "Note("):
				may["F.Log"] = true
			}
		}
	}
}

func (w *tbWorld) frameJSON(pre jsonSnap, may map[string]bool) {
	if w.json == nil {
		return
	}
	post := snapJSON(w.json)
	chk := func(path string, same bool) {
		if !may[path] {
			verif.Assert(w.L("C04:frame:unaddressed-JSON-member-unchanged:"+path), same)
		}
	}
	chk("J.a", sameJSONLeaf(pre.a, post.a))
	chk("J.flag", sameJSONLeaf(pre.flag, post.flag))
	chk("J.s", sameJSONLeaf(pre.s, post.s))
	chk("J.b.c", sameJSONLeaf(pre.bc, post.bc))
	chk("J.arr[0]", sameJSONLeaf(pre.arr0, post.arr0))
	chk("J.arr[1]", sameJSONLeaf(pre.arr1, post.arr1))
	verif.Assert(w.L("C04:frame:no-JSON-member-appears-or-disappears"), pre.n == post.n && pre.nb == post.nb && pre.narr == post.narr)
}

func (w *tbWorld) frame(pre factSnap, n int64, may map[string]bool) {
	post := snapFact(w.f, n)
	a, b := &pre.f, &post.f
	chk := func(path string, same bool) {
		if !may[path] {
			verif.Assert(w.L("C04:frame:unaddressed-fact-unchanged:"+path), same)
		}
	}
	chk("F.I", a.I == b.I)
	chk("F.J", a.J == b.J)
	chk("F.K", a.K == b.K)
	chk("F.I8", a.I8 == b.I8)
	chk("F.I16", a.I16 == b.I16)
	chk("F.I32", a.I32 == b.I32)
	chk("F.In", a.In == b.In)
	chk("F.U", a.U == b.U)
	chk("F.U8", a.U8 == b.U8)
	chk("F.U16", a.U16 == b.U16)
	chk("F.U32", a.U32 == b.U32)
	chk("F.U64", a.U64 == b.U64)
	chk("F.F32", verif.SameFloat64(float64(a.F32), float64(b.F32)))
	chk("F.X", verif.SameFloat64(a.X, b.X))
	chk("F.Y", verif.SameFloat64(a.Y, b.Y))
	chk("F.B", a.B == b.B)
	chk("F.C", a.C == b.C)
	chk("F.S", a.S == b.S)
	chk("F.R", a.R == b.R)
	chk("F.P", pre.pp == w.f.P)
	if pre.hasP && w.f.P == pre.pp {
		chk("F.P.V", pre.p.V == post.p.V)
		chk("F.P.W", verif.SameFloat64(pre.p.W, post.p.W))
	}
	if !may["F.Q"] {
		chk("F.Q.V", pre.q.V == post.q.V)
	}
	chk("F.N.V", a.N.V == b.N.V)
	chk("F.N.W", verif.SameFloat64(a.N.W, b.N.W))
	verif.Assert(w.L("C04:frame:slice-length-unchanged"), len(pre.arr) == len(post.arr) && len(pre.fa) == len(post.fa))
	for i := range pre.arr {
		if i < len(post.arr) {
			chk("F.Arr["+string(rune('0'+i))+"]", pre.arr[i] == post.arr[i])
		}
	}
	for i := range pre.fa {
		if i < len(post.fa) {
			chk("F.FA["+string(rune('0'+i))+"]", verif.SameFloat64(pre.fa[i], post.fa[i]))
		}
	}
	chk(`F.M["a"]`, pre.ma == post.ma)
	chk(`F.M["b"]`, pre.mb == post.mb)
	verif.Assert(w.L("C04:frame:no-map-entry-appears-or-disappears"), pre.mlen == post.mlen)
	chk("F.PI", pre.pi == post.pi)
	verif.Assert(w.L("C04:frame:pointer-to-number-field-keeps-its-cell"), a.PI == b.PI)
	chk("N", pre.n == post.n)
}

// topN reads the top-level context variable N back from the data context.
func (w *tbWorld) topN() int64 {
	vn := w.dc.Get("N")
	if vn == nil {
		return 0
	}
	v, err := vn.GetValue()
	if err != nil || !v.IsValid() {
		return 0
	}
	return v.Int()
}

// ---------------------------------------------------------------- C13

// tbInvalidates: does firing `re` concern a counted call? what=0: F.Heavy(F.I) (an assignment to F.I or F, a mutating
// method, or a Forget/Changed call); what=1: the argument-less calls F.GetI() / F.Items() (only an assignment to F itself or a
// Forget/Changed call: grule does not look inside methods, and no variable of their text is assigned otherwise)
func tbInvalidates(re *ast.RuleEntry, what int) bool {
	may := map[string]bool{}
	tbTargets(re, may)
	if may["F"] || (what == 0 && may["F.I"]) {
		return true
	}
	for _, te := range re.ThenScope.ThenExpressionList.ThenExpressions {
		if te.ExpressionAtom == nil {
			continue
		}
		t := te.ExpressionAtom.GrlText
		if !strings.Contains(t, "Forget(") && !strings.Contains(t, "Changed(") {
			continue
		}
		// the announced snippet concerns a counted call when it names the whole fact, the call itself, or (Heavy) its argument
		switch {
		case strings.Contains(t, `"F"`):
			return true
		case what == 0 && (strings.Contains(t, `"F.I"`) || strings.Contains(t, "F.Heavy")):
			return true
		case what == 1 && (strings.Contains(t, "F.GetI") || strings.Contains(t, "F.Items")):
			return true
		}
	}
	return false
}

// Template sets (the *programs* dimension is a curated family; see DESIGN §4).
var tbSets = map[string][]string{
	"json":     {"j_basic", "j_kind"},
	"memo":     {"b_basic", "b_toplevel", "b_slice_sel", "b_slice", "b_map", "b_nested", "b_short", "b_shared", "b_forget", "b_ptrswap", "b_forgetcall", "b_chain", "b_failshared", "b_elemfield", "m_multires", "m_partial", "b_elemheavy", "b_substr", "b_idxshare", "b_spelling", "b_innershare", "b_forgetheavy", "b_spellstr"},
	"control":  {"b_retract", "b_fail", "b_nilptr", "b_actfail", "b_completefail", "b_parenfail", "b_kind", "b_completetop", "b_retractelem", "b_heal"},
	"values":   {"b_compound", "b_args", "b_float", "b_string", "b_ifacebool"},
	"reuse":    {"b_unread", "b_retract", "b_basic", "b_writeonly", "b_complete", "b_spelling"},
	"reuseq":   {"b_unread", "b_basic", "b_writeonly", "b_complete", "b_spelling"},
	"failing":  {"b_kind", "b_fail", "b_nilptr", "b_parenfail", "b_heal"},
	"memo2":    {"b_grid"},
	"memo3":    {"b_sharedcomp"},
	"reusej":   {"j_flag"},
	"ctl2":     {"b_complete2", "b_complete3"},
	"actfail2": {"b_actfail2", "b_appendfail"},
	"kind2":    {"b_kind2"},
	"nilp":     {"b_heal", "b_nilptr"},
	"removal":  {"b_basic", "b_retract", "two"},
	"reusef":   {"b_forget", "b_forgetcall", "b_basic"},
	"actfail":  {"b_actfail", "b_completefail"},
	"ctl1":     {"b_retract", "b_completetop"},
	"controlp": {"b_retract", "b_fail", "b_nilptr", "b_actfail"},
	"dbg":      {"b_parenfail"},
	"fetch":    {"b_basic", "b_short", "b_map", "b_slice", "b_nested", "b_shared", "b_ifacebool", "b_argshare"},
	"clone":    {"b_paren", "b_argshare", "b_shared", "b_short", "b_retract", "b_map", "b_slice_sel", "b_forgetcall", "two"},
}

// VerifTierBSet runs VerifTierBRun for every template of a set (enumerated by Choice, explored in parallel).
func VerifTierBSet(set string, maxCycle int, flags int) {
	ts := tbSets[set]
	t := ts[verif.Choice("template", len(ts))]
	f := flags
	if t == "b_nilptr" {
		f |= 4
	}
	VerifTierBRun(t, maxCycle, f)
}

// VerifTierBRun: one Execute of template tmpl on symbolic facts, at most maxCycle firings.
// flags: 1 = permute the rule order, 2 = symbolic saliences, 4 = P is nil
func VerifTierBRun(tmpl string, maxCycle int, flags int) {
	shape := 0
	if flags&4 != 0 {
		shape = 1
	}
	w := tbSetup(tmpl, shape, flags&1 != 0)
	if flags&2 != 0 {
		for _, n := range w.names {
			s := verif.Int("salience:" + n)
			verif.Assume(verif.And(s >= -100, s <= 100))
			w.kb.RuleEntries[n].Salience = s
		}
	}
	eng := &engine.GruleEngine{MaxCycle: uint64(maxCycle), Listeners: []engine.GruleEngineListener{w}}
	var failing0 []string
	if flags&8 != 0 {
		// ReturnErrOnFailedRuleEvaluation: which active rules' conditions fail on the initial facts (memo-free)?
		eng.ReturnErrOnFailedRuleEvaluation = true
		// the built-in functions are part of every run's data context (the engine adds them first thing)
		_ = w.dc.Add("DEFUNC", &ast.BuiltInFunctions{Knowledge: w.kb, WorkingMemory: w.kb.WorkingMemory, DataContext: w.dc})
		for _, n := range w.names {
			if re := w.kb.RuleEntries[n]; !re.Deleted && w.freshFails(n) {
				failing0 = append(failing0, n)
			}
		}
	}
	pre := snapFact(w.f, w.topN())
	preJ := snapJSON(w.json)
	var err error
	panicked := false
	func() {
		defer func() {
			if r := recover(); r != nil {
				panicked = true
			}
		}()
		err = eng.Execute(w.dc, w.kb)
	}()
	verif.Assert(w.L("C14:no-panic-escapes"), !panicked)
	if panicked {
		return
	}
	verif.Reach("tierB:execute-returned")
	if flags&8 != 0 {
		if len(failing0) > 0 {
			verif.Reach("tierB:flag-set-and-a-condition-fails")
			verif.Assert(w.L("C14:condition-failure-is-returned-when-the-flag-is-set"), err != nil)
			if err != nil {
				named := false
				for _, n := range failing0 {
					if strings.Contains(err.Error(), n) {
						named = true
					}
				}
				verif.Assert(w.L("C14:condition-error-names-the-rule"), named)
			}
			verif.Assert(w.L("C14:no-rule-fires-when-the-first-evaluation-phase-fails"), len(w.fired) == 0)
			w.frame(pre, w.topN(), map[string]bool{}) // nothing fired: nothing changed
		}
		return
	}
	// C04 frame condition: only what the fired rules address may have changed
	may := map[string]bool{}
	invalidations, invalidations0 := 0, 0
	for _, n := range w.fired {
		tbTargets(w.kb.RuleEntries[n], may)
		if tbInvalidates(w.kb.RuleEntries[n], 0) {
			invalidations++
		}
		if tbInvalidates(w.kb.RuleEntries[n], 1) {
			invalidations0++
		}
	}
	w.frame(pre, w.topN(), may)
	w.frameJSON(preJ, may)
	// C13: a shared side-effect-free call is evaluated at most once between invalidations
	verif.Assert(w.L("C13:shared-call-evaluated-at-most-once-between-invalidations"), w.f.HeavyCalls <= 1+invalidations)
	verif.Assert(w.L("C13:shared-accessor-evaluated-at-most-once-between-invalidations"), w.f.GetICalls <= 1+invalidations0)
	verif.Assert(w.L("C13:shared-call-on-an-element-of-a-method-result-evaluated-at-most-once"), w.f.ItemCalls() <= 1+invalidations0)
	verif.Assert(w.L("C13:call-that-is-the-receiver-of-several-different-atoms-evaluated-at-most-once"), w.f.ItemsCalls <= 1+invalidations0)
	if w.f.HeavyCalls > 0 {
		verif.Reach("tierB:counted-call-ran")
	}
	if post := tbPost[tmpl]; post != nil {
		post(w, pre, err)
	}
	if len(w.fired) > 0 {
		verif.Reach("tierB:a-rule-fired")
	}
	if err == nil && !w.dc.IsComplete() {
		verif.Reach("tierB:quiescent")
		for _, n := range w.names {
			re := w.kb.RuleEntries[n]
			if !re.Retracted && !re.Deleted {
				verif.Assert(w.L("C02:no-satisfied-rule-at-quiescence:"+n), verif.Not(w.fresh(n)))
			}
		}
	}
	if err != nil {
		verif.Event("result", "error")
	} else {
		verif.Event("result", "nil", w.f.I, w.f.J, w.f.B)
	}
}

// ---------------------------------------------------------------- template-specific post-conditions

func firedSet(w *tbWorld) map[string]int {
	m := map[string]int{}
	for _, n := range w.fired {
		m[n]++
	}
	return m
}

var tbPost = map[string]func(w *tbWorld, pre factSnap, err error){
	// C10: Retract / Complete at every position of an action list
	"b_retract": func(w *tbWorld, pre factSnap, err error) {
		fs := firedSet(w)
		verif.Assert(w.L("C10:a-rule-that-retracted-itself-fires-once"), fs["R1"] <= 1)
		if fs["R1"] == 1 {
			verif.Reach("tierB:self-retract-fired")
			if fs["R4"] == 0 || true {
				verif.Assert(w.L("C10:actions-after-Retract-still-run"), verif.Or(w.f.K == 2, fs["R4"] > 0))
			}
		}
		if fs["R2"] > 0 {
			verif.Assert(w.L("C10:rule-retracted-by-another-rule-does-not-fire-afterwards"), lastIndex(w.fired, "R3") < firstIndex(w.fired, "R2"))
			verif.Assert(w.L("C10:retracting-an-unknown-name-is-a-no-op"), err == nil || w.dc.IsComplete() || strings.Contains(err.Error(), "successfully selected"))
		}
		if fs["R4"] > 0 {
			verif.Reach("tierB:complete-fired")
			verif.Assert(w.L("C10:actions-after-Complete-still-run"), w.f.U16 == 7)
			verif.Assert(w.L("C03:actions-of-the-fired-rule-are-applied-completely"), w.f.U16 == 7)
			verif.Assert(w.L("C10:Execute-returns-nil-after-Complete"), err == nil)
			verif.Assert(w.L("C10:nothing-fires-after-Complete"), w.fired[len(w.fired)-1] == "R4")
		}
	},
	// C14: real failures chosen by the solver through the facts
	"b_fail": func(w *tbWorld, pre factSnap, err error) {
		verif.Assert(w.L("C14:condition-failures-are-contained-by-default"), err == nil || strings.Contains(err.Error(), "successfully selected"))
		// X4's left operand decides: it is a candidate whenever F.I8 < 1, whatever the failing right operand does
		fs := firedSet(w)
		if err == nil {
			verif.Assert(w.L("C14:healthy-rule-not-disturbed-by-a-failing-sibling"), verif.Implies(pre.f.I8 < 1, fs["X4"] > 0))
		}
	},
	// C14: a failing action: error naming the rule, completed writes kept, later actions and rules not run
	"b_actfail": func(w *tbWorld, pre factSnap, err error) {
		fs := firedSet(w)
		if fs["AF1"] > 0 {
			verif.Reach("tierB:failing-action-fired")
			verif.Assert(w.L("C14:action-failure-is-returned"), err != nil)
			if err != nil {
				verif.Assert(w.L("C14:action-error-names-the-rule"), strings.Contains(err.Error(), "AF1"))
			}
			verif.Assert(w.L("C14:effects-of-completed-actions-are-kept"), w.f.U8 == 1)
			verif.Assert(w.L("C14:actions-after-the-failing-one-do-not-run"), w.f.U16 == pre.f.U16)
			verif.Assert(w.L("C04:nothing-is-written-after-a-failing-action"), w.f.U16 == pre.f.U16)
			verif.Assert(w.L("C14:no-rule-fires-after-a-failed-action"), w.fired[len(w.fired)-1] == "AF1")
		}
	},
	// C14: Complete() followed by a failing action in the same then scope - the failure is still reported
	"b_completefail": func(w *tbWorld, pre factSnap, err error) {
		fs := firedSet(w)
		if fs["CF1"] > 0 {
			verif.Reach("tierB:complete-then-maybe-failing-action-fired")
			outOfRange := verif.Or(pre.f.In < 0, pre.f.In > 2)
			verif.Assert(w.L("C14:action-failure-after-Complete-is-returned"), verif.Iff(outOfRange, err != nil))
			if err != nil {
				verif.Assert(w.L("C14:action-error-names-the-rule"), strings.Contains(err.Error(), "CF1"))
				verif.Assert(w.L("C14:actions-after-the-failing-one-do-not-run"), w.f.U16 == pre.f.U16)
				verif.Assert(w.L("C04:nothing-is-written-after-a-failing-action"), w.f.U16 == pre.f.U16)
			} else {
				verif.Assert(w.L("C10:actions-after-Complete-still-run"), w.f.U16 == 7)
			}
			verif.Assert(w.L("C14:effects-of-completed-actions-are-kept"), w.f.U8 == 1)
			verif.Assert(w.L("C14:no-rule-fires-after-a-failed-action"), w.fired[len(w.fired)-1] == "CF1")
		}
	},
	// C14: a sub-expression that fails is not remembered: the rule fires only while its index is in range
	"b_parenfail": func(w *tbWorld, pre factSnap, err error) {
		fs := firedSet(w)
		if n := fs["PF1"]; n > 0 {
			verif.Reach("tierB:paren-rule-fired")
			verif.Assert(w.L("C14:rule-with-a-failing-condition-does-not-fire"), verif.And(pre.f.In >= 0, pre.f.In+n-1 <= 2))
		}
		verif.Assert(w.L("C14:condition-failures-are-contained-by-default"), err == nil || strings.Contains(err.Error(), "successfully selected"))
	},
	// C14: kind mismatch, missing fact, missing key: contained; the healthy rule is not disturbed
	"b_kind": func(w *tbWorld, pre factSnap, err error) {
		fs := firedSet(w)
		verif.Assert(w.L("C14:condition-failures-are-contained-by-default"), err == nil)
		verif.Assert(w.L("C14:rule-with-a-failing-condition-does-not-fire"), fs["K1"] == 0 && fs["K2"] == 0 && fs["K5"] == 0)
		verif.Assert(w.L("C14:healthy-rule-not-disturbed-by-a-failing-sibling"), verif.Implies(pre.f.I8 < 1, fs["K4"] > 0))
	},
	// C10: Complete() followed by an assignment to a top-level variable (DataContext.Add is the write path)
	"b_completetop": func(w *tbWorld, pre factSnap, err error) {
		fs := firedSet(w)
		if fs["CT1"] > 0 {
			verif.Reach("tierB:complete-then-top-level-assignment-fired")
			verif.Assert(w.L("C10:actions-after-Complete-still-run"), w.topN() == pre.n+5)
			verif.Assert(w.L("C03:actions-of-the-fired-rule-are-applied-completely"), w.topN() == pre.n+5)
			verif.Assert(w.L("C10:Execute-returns-nil-after-Complete"), err == nil)
			verif.Assert(w.L("C10:nothing-fires-after-Complete"), w.fired[len(w.fired)-1] == "CT1")
			verif.Assert(w.L("C10:the-data-context-stays-complete"), w.dc.IsComplete())
		}
	},
	// C10: a rule that retracts itself and writes only a slice element / map entry leaves the rule it enables alone
	"b_retractelem": func(w *tbWorld, pre factSnap, err error) {
		fs := firedSet(w)
		verif.Assert(w.L("C10:a-rule-that-retracted-itself-fires-once"), fs["RS1"] <= 1 && fs["RM1"] <= 1)
		if fs["RS1"] == 1 && err == nil {
			verif.Reach("tierB:self-retracting-element-writer-fired")
			verif.Assert(w.L("C10:retracting-one-rule-leaves-every-other-rule-unaffected"), verif.Implies(pre.f.U8 < 1, fs["RS2"] > 0))
		}
		if fs["RM1"] == 1 && err == nil {
			verif.Assert(w.L("C10:retracting-one-rule-leaves-every-other-rule-unaffected"), verif.Implies(pre.f.U16 < 1, fs["RM2"] > 0))
		}
	},
	// C14: a rule whose condition failed is tried again once another rule has repaired the fact
	"b_heal": func(w *tbWorld, pre factSnap, err error) {
		fs := firedSet(w)
		verif.Assert(w.L("C14:condition-failures-are-contained-by-default"), err == nil || strings.Contains(err.Error(), "successfully selected"))
		if fs["HL2"] > 0 && err == nil {
			verif.Reach("tierB:index-repaired")
			// after the repair F.In == 0: HL1 is satisfied iff Arr[0] > 0 and it has not fired yet
			verif.Assert(w.L("C14:rule-whose-condition-failed-is-tried-again-after-the-repair"), verif.Implies(verif.And(pre.arr[0] > 0, pre.f.U8 < 1), fs["HL1"] > 0))
		}
		if fs["HL4"] > 0 && err == nil {
			verif.Assert(w.L("C14:rule-whose-condition-failed-is-tried-again-after-the-repair"), verif.Implies(verif.And(pre.q.V > 0, pre.f.U16 < 1), fs["HL3"] > 0))
		}
	},
	// C10: a firing that retracts itself AND completes still ends the run
	"b_complete2": func(w *tbWorld, pre factSnap, err error) {
		fs := firedSet(w)
		if fs["CR1"] > 0 {
			verif.Reach("tierB:retract-and-complete-fired")
			verif.Assert(w.L("C10:Execute-returns-nil-after-Complete"), err == nil)
			verif.Assert(w.L("C10:nothing-fires-after-Complete"), w.fired[len(w.fired)-1] == "CR1")
			verif.Assert(w.L("C10:the-data-context-stays-complete"), w.dc.IsComplete())
		}
	},
	// C10: Complete() has no effect on what the remaining actions of the rule compute
	"b_complete3": func(w *tbWorld, pre factSnap, err error) {
		fs := firedSet(w)
		if fs["CM1"] > 0 {
			verif.Reach("tierB:complete-then-dependent-actions-fired")
			verif.Assert(w.L("C10:actions-after-Complete-still-run"), verif.And(w.f.I == pre.f.I+40, w.f.J == pre.f.K-(pre.f.I+40)))
			verif.Assert(w.L("C04:actions-after-Complete-compute-on-the-facts-as-left-by-the-preceding-action"), w.f.J == pre.f.K-(pre.f.I+40))
		}
	},
	// C14: selector assignment on a non-indexable owner, Append of a value of the wrong type: reported like any failing action
	"b_actfail2": func(w *tbWorld, pre factSnap, err error) {
		fs := firedSet(w)
		if fs["AG1"] > 0 {
			verif.Reach("tierB:failing-action-fired")
			verif.Assert(w.L("C14:action-failure-is-returned"), err != nil)
			if err != nil {
				verif.Assert(w.L("C14:action-error-names-the-rule"), strings.Contains(err.Error(), "AG1"))
			}
			verif.Assert(w.L("C14:actions-after-the-failing-one-do-not-run"), w.f.U16 == pre.f.U16)
			verif.Assert(w.L("C14:no-rule-fires-after-a-failed-action"), w.fired[len(w.fired)-1] == "AG1")
		}
	},
	"b_appendfail": func(w *tbWorld, pre factSnap, err error) {
		fs := firedSet(w)
		if fs["AP1"] > 0 {
			verif.Reach("tierB:failing-action-fired")
			verif.Assert(w.L("C14:action-failure-is-returned"), err != nil)
			if err != nil {
				verif.Assert(w.L("C14:action-error-names-the-rule"), strings.Contains(err.Error(), "AP1"))
			}
			verif.Assert(w.L("C14:actions-after-the-failing-one-do-not-run"), w.f.U16 == pre.f.U16)
			verif.Assert(w.L("C14:no-rule-fires-after-a-failed-action"), w.fired[len(w.fired)-1] == "AP1")
		}
	},
	// C14: a non-boolean operand of && / || is an evaluation failure, not "whatever the other operand says"
	"b_kind2": func(w *tbWorld, pre factSnap, err error) {
		fs := firedSet(w)
		verif.Assert(w.L("C14:condition-failures-are-contained-by-default"), err == nil)
		verif.Assert(w.L("C14:rule-with-a-failing-condition-does-not-fire"), fs["K6"] == 0 && fs["K7"] == 0)
		verif.Assert(w.L("C14:healthy-rule-not-disturbed-by-a-failing-sibling"), verif.Implies(pre.f.I8 < 1, fs["K8"] > 0))
	},
	"b_nilptr": func(w *tbWorld, pre factSnap, err error) {
		verif.Assert(w.L("C14:condition-failures-are-contained-by-default"), err == nil)
		fs := firedSet(w)
		verif.Assert(w.L("C14:healthy-rule-not-disturbed-by-a-failing-sibling"), verif.Implies(pre.f.I < 1, fs["Z2"] > 0))
		if w.f.P == nil {
			verif.Assert(w.L("C14:rule-with-a-failing-condition-does-not-fire"), fs["Z1"] == 0)
		}
	},
	// C04 values for the compound assignments (reference: Go arithmetic on the pre-state, in textual order)
	"b_compound": func(w *tbWorld, pre factSnap, err error) {
		if len(w.fired) == 1 {
			verif.Reach("tierB:compound-fired-once")
			verif.Assert(w.L("C04:plus-assign"), w.f.I == pre.f.I+pre.f.J)
			verif.Assert(w.L("C04:minus-assign"), w.f.K == pre.f.K-1)
			verif.Assert(w.L("C04:mul-assign"), w.f.J == pre.f.J*2)
			verif.Assert(w.L("C04:div-assign"), w.f.X == pre.f.X/2.0)
		}
	},
	"b_args": func(w *tbWorld, pre factSnap, err error) {
		if len(w.fired) == 1 {
			verif.Reach("tierB:args-fired")
			verif.Assert(w.L("C05:method-arguments-in-order"), w.f.I == pre.f.K-2*pre.f.J+3*pre.f.I)
			verif.Assert(w.L("C05:variadic-arguments"), w.f.J == pre.f.J+3)
		}
		verif.Assert(w.L("C05:method-condition"), verif.Iff(len(w.fired) == 1,
			verif.And(pre.f.I-2*pre.f.J+3*pre.f.K > 0, pre.f.I+pre.f.J < 50)))
	},
	"b_float": func(w *tbWorld, pre factSnap, err error) {
		if len(w.fired) >= 1 {
			verif.Assert(w.L("C05:int-float-promotion-in-a-condition"), verif.And(pre.f.X*2.5 >= 10.0, float64(pre.f.I)+pre.f.X < 900.5))
		}
		if len(w.fired) == 1 {
			verif.Assert(w.L("C04:float-assignments"), verif.And(w.f.X == pre.f.X/2.0, w.f.Y == float64(pre.f.I)+0.5))
		}
	},
	"b_string": func(w *tbWorld, pre factSnap, err error) {
		verif.Assert(w.L("C05:string-comparison-and-concatenation"), len(w.fired) == 1 && w.f.S == "done" && w.f.R == "doneno")
	},
}

func firstIndex(xs []string, s string) int {
	for i, x := range xs {
		if x == s {
			return i
		}
	}
	return len(xs)
}

func lastIndex(xs []string, s string) int {
	r := -1
	for i, x := range xs {
		if x == s {
			r = i
		}
	}
	return r
}

// ---------------------------------------------------------------- reuse of an instance (C08, Tier B)

// VerifTierBReuse: two Execute calls on ONE instance, each with its own data context and its own symbolic facts.
// The second call must behave like a call on a fresh instance: the memo-free oracle (C01/C02) is asserted throughout it,
// and it must not touch the first caller's facts.
func VerifTierBReuse(set string, maxCycle int, fetchFirst int) {
	verifTierBReuse(set, maxCycle, fetchFirst, 0)
}

// VerifTierBReuseSameDC: the second call re-uses the SAME data context and fact objects; the host program has changed the
// fact values in between (plain Go assignments).
func VerifTierBReuseSameDC(set string, maxCycle int) { verifTierBReuse(set, maxCycle, 0, 1) }

// VerifTierBReuseOtherInstance: the same data context (facts changed by the host) is passed to a SECOND instance.
func VerifTierBReuseOtherInstance(set string, maxCycle int) { verifTierBReuse(set, maxCycle, 0, 2) }

func verifTierBReuse(set string, maxCycle int, fetchFirst int, sameDC int) {
	ts := tbSets[set]
	tmpl := ts[verif.Choice("template", len(ts))]
	w := tbSetup(tmpl, 0, false)
	eng := &engine.GruleEngine{MaxCycle: uint64(maxCycle), Listeners: []engine.GruleEngineListener{w}}
	run := func() (err error, panicked bool) {
		defer func() {
			if r := recover(); r != nil {
				panicked = true
			}
		}()
		err = eng.Execute(w.dc, w.kb)
		return
	}
	if tmpl == "j_flag" {
		w.json["flag"] = "yes" // first call: the member is a string, so the when scope is not boolean in this call
	}
	if fetchFirst != 0 {
		_, _ = eng.FetchMatchingRules(w.dc, w.kb)
	}
	pan1 := false
	if fetchFirst != 2 { // 2: the instance has only been used through FetchMatchingRules before the Execute under test
		_, pan1 = run()
	}
	verif.Assert(w.L("C14:no-panic-escapes"), !pan1)
	f1 := w.f
	n1 := w.topN()
	after1 := snapFact(f1, n1)
	out1 := w.out
	out1V := out1.V
	dc1 := w.dc
	complete1 := dc1.IsComplete()
	firedFirst := len(w.fired)
	// second call: new data context and new facts (or, sameDC: the SAME data context and fact objects whose values the
	// host program has changed in between), same instance
	if sameDC == 0 {
		w.f = newFact("G", 0)
		w.out = &Sub{V: smallInt("Out2.V"), S: "out"}
		w.dc = ast.NewDataContext()
		w.dc.Add("F", w.f)
		w.dc.Add("N", smallInt("N2"))
		w.dc.Add("Out", w.out)
		w.json = newJSONTree("J2") // a new JSON document as well (every leaf symbolic again)
		if dcx, ok := w.dc.(*ast.DataContext); ok {
			dcx.ObjectStore["J"] = model.VerifJSONNode(w.json, "J")
		}
	} else {
		w.f.I, w.f.J, w.f.K = smallInt("F.I'"), smallInt("F.J'"), smallInt("F.K'")
		w.f.B, w.f.C = verif.Bool("F.B'"), verif.Bool("F.C'")
		w.f.U8, w.f.U16 = verif.Uint8("F.U8'"), verif.Uint16("F.U16'")
		w.f.Q.V = smallInt("F.Q.V'")
		if sameDC == 2 {
			// ... and it is passed to ANOTHER instance of the same knowledge base (the DEFUNC entry the first run left
			// in the data context must not keep Forget / Changed bound to the first instance)
			kb2, err := w.lib.NewKnowledgeBaseInstance("T", "1")
			if err != nil {
				verif.Stop("no second instance")
			}
			w.kb = kb2
		}
	}
	// the reference for the later call is an instance that has JUST been created ("as if the instance had just been
	// created"): whatever an earlier call may have left in the old reference instance's nodes or rule entries is gone
	if ref2, err := w.lib.NewKnowledgeBaseInstance("T", "1"); err == nil {
		w.ref = ref2
	}
	w.fired = nil
	pre2 := snapFact(w.f, w.topN())
	preOut2 := w.out.V
	verif.Reach("tierB:second-call")
	w.tmpl = tmpl + "/second-call"
	err2, pan2 := run()
	verif.Assert(w.L("C14:no-panic-escapes"), !pan2)
	if pan2 {
		return
	}
	if firedFirst > 0 && len(w.fired) > 0 {
		verif.Reach("tierB:both-calls-fired")
	}
	if fetchFirst == 2 && len(w.fired) > 0 {
		verif.Reach("tierB:execute-after-fetch-only-fired")
	}
	may := map[string]bool{}
	for _, n := range w.fired {
		tbTargets(w.kb.RuleEntries[n], may)
	}
	if sameDC == 0 {
		// the first caller's facts and data context are not touched by the second call
		w2f := w.f
		w.f = f1
		w.tmpl = tmpl + "/first-callers-facts-during-second-call"
		w.frame(after1, n1, map[string]bool{"N": true})
		verif.Assert(w.L("C08:first-callers-second-fact-untouched"), out1.V == out1V)
		verif.Assert(w.L("C08:first-callers-data-context-untouched"), dc1.IsComplete() == complete1)
		w.f = w2f
		w.tmpl = tmpl + "/second-call"
	}
	w.frame(pre2, w.topN(), may)
	// the write-only fact of THIS call received the write (template b_writeonly)
	if !may["Out.V"] {
		verif.Assert(w.L("C04:frame:unaddressed-fact-unchanged:Out.V"), w.out.V == preOut2)
	} else if tmpl == "b_writeonly" && len(w.fired) == 1 {
		verif.Assert(w.L("C08:write-only-fact-of-the-later-call-receives-its-write"), w.out.V == pre2.f.I+7)
		verif.Assert(w.L("C04:write-only-fact-of-the-later-call-receives-its-write"), w.out.V == pre2.f.I+7)
	}
	// Complete() in the later call stops THAT call (template b_complete)
	if tmpl == "b_complete" && len(w.fired) > 0 && w.fired[0] == "Done" {
		verif.Assert(w.L("C08:Complete-in-a-later-call-stops-that-call"), len(w.fired) == 1 && err2 == nil && w.dc.IsComplete())
		verif.Assert(w.L("C10:Complete-in-a-later-call-stops-that-call"), len(w.fired) == 1 && err2 == nil && w.dc.IsComplete())
	}
	if err2 == nil && !w.dc.IsComplete() {
		for _, n := range w.names {
			re := w.kb.RuleEntries[n]
			if !re.Retracted && !re.Deleted {
				verif.Assert(w.L("C02:no-satisfied-rule-at-quiescence:"+n), verif.Not(w.fresh(n)))
				verif.Assert(w.L("C08:no-satisfied-rule-at-quiescence-of-a-later-call:"+n), verif.Not(w.fresh(n)))
			}
		}
	}
	// every rule retracted in the first call takes part again: its condition was evaluated in the second call
	verif.Assert(w.L("C08:later-call-evaluated-rules"), w.nEval > 0)
}

// ---------------------------------------------------------------- repeated FetchMatchingRules (C11 / C08, Tier B)

// VerifFetchTwice: FetchMatchingRules, then the HOST changes the facts (plain Go assignments, not rule actions), then
// FetchMatchingRules again with the same instance and the same data context. Each result must be exactly the rules whose
// condition holds on the facts of that moment (memo-free oracle), in non-increasing salience order.
func VerifFetchTwice(set string) {
	ts := tbSets[set]
	tmpl := ts[verif.Choice("template", len(ts))]
	w := tbSetup(tmpl, 0, false)
	eng := &engine.GruleEngine{MaxCycle: 1}
	check := func(tag string) {
		res, err := eng.FetchMatchingRules(w.dc, w.kb)
		verif.Assert(w.L("C11:"+tag+":no-error"), err == nil)
		if err != nil {
			return
		}
		in := map[string]int{}
		for _, re := range res {
			in[re.RuleName]++
		}
		for _, n := range w.names {
			f := w.fresh(n)
			verif.Assert(w.L("C11:"+tag+":returned-iff-the-condition-holds-now:"+n), verif.Iff(in[n] == 1, f))
			verif.Assert(w.L("C08:"+tag+":fetch-result-as-on-a-fresh-instance:"+n), verif.Iff(in[n] == 1, f))
			verif.Assert(w.L("C11:"+tag+":returned-at-most-once:"+n), in[n] <= 1)
		}
		for i := 0; i+1 < len(res); i++ {
			verif.Assert(w.L("C11:"+tag+":non-increasing-salience"), res[i].Salience >= res[i+1].Salience)
		}
	}
	pre := snapFact(w.f, w.topN())
	check("first-call")
	w.frame(pre, w.topN(), map[string]bool{}) // FetchMatchingRules executes no action: facts untouched
	// the host program changes the facts behind the engine's back
	w.f.I, w.f.J, w.f.K = smallInt("F.I'"), smallInt("F.J'"), smallInt("F.K'")
	w.f.B, w.f.C = verif.Bool("F.B'"), verif.Bool("F.C'")
	w.f.Arr[0], w.f.Arr[1] = smallInt("F.Arr0'"), smallInt("F.Arr1'")
	w.f.M["a"] = smallInt("F.Ma'")
	if w.f.P != nil {
		w.f.P.V = smallInt("F.P.V'")
	}
	verif.Reach("tierB:second-fetch")
	check("second-call-same-data-context")
}

// ---------------------------------------------------------------- the clock across calls (C08)

// VerifClockReuse: two Execute calls on one instance; time.Now is an arbitrary non-decreasing clock (environment).
// What the second call reads from Now() must not be older than the start of the second call: a value remembered from
// the first call would be.
func VerifClockReuse() {
	verif.SymbolicClock()
	w := tbSetup("b_clock", 0, false)
	eng := &engine.GruleEngine{MaxCycle: 3}
	_ = eng.Execute(w.dc, w.kb)
	first := w.f.RI
	w.f = newFact("G", 0)
	w.dc = ast.NewDataContext()
	w.dc.Add("F", w.f)
	w.f.U8 = 0 // the stamping rule is due in the second call
	verif.ClockTick()
	start := time.Now().Unix()
	verif.Reach("tierB:clock-second-call")
	err := eng.Execute(w.dc, w.kb)
	if err == nil && w.f.U8 == 1 {
		verif.Reach("tierB:clock-stamped-in-second-call")
		verif.Event("clock", first, start, w.f.RI)
		verif.Assert("C08:clock-read-in-a-later-call-is-not-older-than-the-call@b_clock", w.f.RI >= start)
	}
	_ = first
}

// VerifTierBRemoval: while Execute is in progress, the host removes one rule of the instance (KnowledgeBase.RemoveRuleEntry
// called from a listener at a chosen firing): the removed rule is never evaluated or fired again in that same run.
func VerifTierBRemoval(set string, maxCycle int) {
	ts := tbSets[set]
	tmpl := ts[verif.Choice("template", len(ts))]
	w := tbSetup(tmpl, 0, false)
	w.removing, w.removedEntries = true, map[*ast.RuleEntry]bool{}
	w.removeAt = verif.Choice("remove-at-firing", maxCycle)
	w.removeName = w.names[verif.Choice("rule-to-remove", len(w.names))]
	eng := &engine.GruleEngine{MaxCycle: uint64(maxCycle), Listeners: []engine.GruleEngineListener{w}}
	panicked := false
	func() {
		defer func() {
			if r := recover(); r != nil {
				panicked = true
			}
		}()
		_ = eng.Execute(w.dc, w.kb)
	}()
	verif.Assert(w.L("C14:no-panic-escapes"), !panicked)
	verif.Reach("tierB:removal-run-returned")
	// and never again on this instance
	if len(w.removedEntries) > 0 && !panicked {
		ms, err := eng.FetchMatchingRules(w.dc, w.kb)
		if err == nil {
			for _, re := range ms {
				verif.Assert(w.L("C16:rule-removed-during-the-run-never-matches-afterwards"), !w.removedEntries[re])
			}
		}
	}
}

// VerifTierBSetLoaded / VerifMemoStepLoaded: the same harnesses on the knowledge base loaded back from its GRB image.
func VerifTierBSetLoaded(set string, maxCycle int, flags int) {
	tbViaGRB = true
	VerifTierBSet(set, maxCycle, flags)
}
