package zztier

// The fact universe of the Tier B harnesses (DESIGN §4).

import (
	"time"

	verif "github.com/hyperjumptech/grule-rule-engine/zzverif"
)

type Sub struct {
	V int64
	W float64
	S string
}

// Item is an element of a method result; Expensive is counted.
type Item struct {
	V     int64
	Calls int
}

// Double / Neg: two different (side-effect free) methods on one receiver: the receiver atom is shared by two wrappers.
func (s *Sub) Double() int64 { return 2 * s.V }
func (s *Sub) Neg() int64    { return -s.V }
func (s *Sub) IsPos() bool   { return s.V > 0 }

func (it *Item) Expensive() bool {
	it.Calls++
	return it.V > 0
}

// Audit is EMBEDDED in Fact: its fields are promoted (F.Hits).
type Audit struct {
	Hits int64
	Tag  string
}

// Cents is a defined numeric type: same kind as int64, different type.
type Cents int64

type Fact struct {
	Audit
	I     int64
	J     int64
	K     int64
	I8    int8
	I16   int16
	I32   int32
	In    int
	U     uint
	U8    uint8
	U16   uint16
	U32   uint32
	U64   uint64
	F32   float32
	X     float64
	Y     float64
	B     bool
	C     bool
	S     string
	R     string
	T     time.Time
	T2    time.Time
	P     *Sub
	Q     *Sub
	N     Sub
	Arr   []int64
	FA    []float64
	M     map[string]int64
	PI    *int64
	Any   interface{}
	Subs  []*Sub
	SubM  map[string]*Sub
	NilM  map[string]int64       // stays nil: writing an entry fails inside reflect
	Cs    []Cents                // elements of a defined numeric type
	Grid  [][]*Sub               // two nested selectors
	Flags map[string]interface{} // an interface-typed bool behind a map entry
	PB    *bool                  // a pointer-typed bool
	items []*Item

	// sinks of the expression harness
	RI int64
	RF float64
	RB bool
	RS string

	PanicAt    int64
	HeavyCalls int
	ItemsCalls int
	GetICalls  int
	Log        []int64
}

// Heavy is "expensive": it counts its calls. Its result depends on its argument only.
func (f *Fact) Heavy(a int64) bool {
	f.HeavyCalls++
	return a > 10
}

// Items returns the same elements on every call (side-effect free); its calls are counted.
func (f *Fact) Items() []*Item {
	f.ItemsCalls++
	return f.items
}

// ItemCalls reports how often the first element's counted method ran.
func (f *Fact) ItemCalls() int {
	if len(f.items) == 0 {
		return 0
	}
	return f.items[0].Calls
}

// GetI is a counted accessor.
func (f *Fact) GetI() int64 {
	f.GetICalls++
	return f.I
}

// Lin3 detects argument permutation.
func (f *Fact) Lin3(a, b, c int64) int64 { return a - 2*b + 3*c }

// Sum is variadic.
func (f *Fact) Sum(xs ...int64) int64 {
	var s int64
	for _, x := range xs {
		s += x
	}
	return s
}

// Join is variadic over strings.
func (f *Fact) Join(xs ...string) string {
	s := ""
	for _, x := range xs {
		s += x
	}
	return s
}

// Boom panics for one argument value.
func (f *Fact) Boom(k int64) int64 {
	if k == f.PanicAt {
		panic("Boom")
	}
	return k
}

// Fail returns an error for one argument value.
func (f *Fact) Note(k int64) { f.Log = append(f.Log, k) }

// Bump mutates the fact behind the engine's back (to be announced with Forget/Changed).
func (f *Fact) Bump() { f.I++ }

// IsOpen / Close: state behind methods (announced with Forget("F.IsOpen()")).
func (f *Fact) IsOpen() bool { return !f.C }
func (f *Fact) Close()       { f.C = true }

// small values keep every arithmetic template free of overflow, as the properties require
func smallInt(label string) int64 {
	v := verif.Int64(label)
	verif.Assume(verif.And(v > -1000, v < 1000))
	return v
}

func smallFloat(label string) float64 {
	v := verif.Float64(label)
	verif.Assume(verif.And(v > -1000, v < 1000)) // also excludes NaN and infinities
	return v
}

// newFact returns a fact whose scalar fields are symbolic. shape selects the pointer shape (P nil or not).
func newFact(tag string, shape int) *Fact {
	f := &Fact{}
	f.I, f.J, f.K = smallInt(tag+".I"), smallInt(tag+".J"), smallInt(tag+".K")
	f.X, f.Y = smallFloat(tag+".X"), smallFloat(tag+".Y")
	f.B, f.C = verif.Bool(tag+".B"), verif.Bool(tag+".C")
	f.I8, f.I16, f.I32 = verif.Int8(tag+".I8"), verif.Int16(tag+".I16"), verif.Int32(tag+".I32")
	f.In = int(smallInt(tag + ".In"))
	f.U8, f.U16, f.U32 = verif.Uint8(tag+".U8"), verif.Uint16(tag+".U16"), verif.Uint32(tag+".U32")
	u := smallInt(tag + ".U")
	verif.Assume(u >= 0)
	f.U = uint(u)
	u64 := smallInt(tag + ".U64")
	verif.Assume(u64 >= 0)
	f.U64 = uint64(u64)
	f32 := verif.Float32(tag + ".F32")
	verif.Assume(verif.And(f32 > -1000, f32 < 1000))
	f.F32 = f32
	f.S, f.R = "go", "no"
	f.N = Sub{V: smallInt(tag + ".N.V"), W: smallFloat(tag + ".N.W"), S: "n"}
	if shape&1 == 0 {
		f.P = &Sub{V: smallInt(tag + ".P.V"), W: smallFloat(tag + ".P.W"), S: "p"}
	}
	f.Q = &Sub{V: smallInt(tag + ".Q.V"), W: smallFloat(tag + ".Q.W"), S: "q"}
	f.Arr = []int64{smallInt(tag + ".Arr0"), smallInt(tag + ".Arr1"), smallInt(tag + ".Arr2")}
	f.FA = []float64{smallFloat(tag + ".FA0"), smallFloat(tag + ".FA1")}
	f.M = map[string]int64{"a": smallInt(tag + ".Ma"), "b": smallInt(tag + ".Mb")}
	pi := smallInt(tag + ".PI")
	f.PI = &pi
	f.T = time.Unix(smallInt(tag+".T.sec")+1700000000, 0).UTC()
	f.T2 = time.Unix(smallInt(tag+".T2.sec")+1700000000, 0).UTC()
	f.Subs = []*Sub{{V: smallInt(tag + ".Subs0.V")}, {V: smallInt(tag + ".Subs1.V")}}
	f.SubM = map[string]*Sub{"no": {V: smallInt(tag + ".SubM.no.V")}, "go": {V: smallInt(tag + ".SubM.go.V")}}
	f.items = []*Item{{V: smallInt(tag + ".item0")}, {V: smallInt(tag + ".item1")}}
	f.Flags = map[string]interface{}{"vip": verif.Bool(tag + ".Flags.vip")}
	pb := verif.Bool(tag + ".PB")
	f.PB = &pb
	f.Hits, f.Tag = smallInt(tag+".Hits"), "t"
	f.Cs = []Cents{Cents(smallInt(tag + ".Cs0")), Cents(smallInt(tag + ".Cs1"))}
	f.Grid = [][]*Sub{{{V: smallInt(tag + ".G00")}, {V: smallInt(tag + ".G01")}}, {{V: smallInt(tag + ".G10")}, {V: smallInt(tag + ".G11")}}}
	f.PanicAt = 7
	return f
}

// factSnap is a deep copy of the observable fact data (symbolic values are immutable terms).
type factSnap struct {
	f    Fact
	p, q Sub
	hasP bool
	pp   *Sub
	arr  []int64
	fa   []float64
	ma   int64
	mb   int64
	mlen int
	pi   int64
	n    int64
	mc   int64
	hasC bool
	cs   []Cents
}

func snapFact(f *Fact, n int64) factSnap {
	s := factSnap{f: *f, n: n}
	if f.P != nil {
		s.p, s.hasP = *f.P, true
	}
	s.pp = f.P
	if f.Q != nil {
		s.q = *f.Q
	}
	s.arr = append([]int64{}, f.Arr...)
	s.fa = append([]float64{}, f.FA...)
	s.ma, s.mb, s.mlen = f.M["a"], f.M["b"], len(f.M)
	s.mc, s.hasC = f.M["c"]
	s.pi = *f.PI
	s.cs = append([]Cents{}, f.Cs...)
	return s
}

// copyFact returns an independent deep copy (same symbolic values, separate cells).
func copyFact(f *Fact) *Fact {
	g := *f
	if f.P != nil {
		p := *f.P
		g.P = &p
	}
	if f.Q != nil {
		q := *f.Q
		g.Q = &q
	}
	g.Arr = append([]int64{}, f.Arr...)
	g.FA = append([]float64{}, f.FA...)
	g.M = map[string]int64{}
	for k, v := range f.M {
		g.M[k] = v
	}
	pi := *f.PI
	g.PI = &pi
	g.Subs = []*Sub{{V: f.Subs[0].V}, {V: f.Subs[1].V}}
	g.SubM = map[string]*Sub{"no": {V: f.SubM["no"].V}, "go": {V: f.SubM["go"].V}}
	g.Log = nil
	g.Cs = append([]Cents{}, f.Cs...)
	g.Grid = [][]*Sub{{{V: f.Grid[0][0].V}, {V: f.Grid[0][1].V}}, {{V: f.Grid[1][0].V}, {V: f.Grid[1][1].V}}}
	g.Flags = map[string]interface{}{"vip": f.Flags["vip"]}
	pb := *f.PB
	g.PB = &pb
	g.items = []*Item{{V: f.items[0].V}, {V: f.items[1].V}}
	return &g
}

// ---------------------------------------------------------------- a JSON fact with symbolic leaves

// newJSONTree is the decoded form of {"a": <num>, "flag": <bool>, "s": "go", "b": {"c": <num>}, "arr": [<num>, <num>]}.
func newJSONTree(tag string) map[string]interface{} {
	return map[string]interface{}{
		"a":    smallFloat(tag + ".a"),
		"flag": verif.Bool(tag + ".flag"),
		"s":    "go",
		"b":    map[string]interface{}{"c": smallFloat(tag + ".b.c")},
		"arr":  []interface{}{smallFloat(tag + ".arr0"), smallFloat(tag + ".arr1")},
	}
}

type jsonSnap struct {
	a, bc, arr0, arr1 interface{}
	flag, s           interface{}
	n, nb, narr       int
}

func snapJSON(t map[string]interface{}) jsonSnap {
	s := jsonSnap{a: t["a"], flag: t["flag"], s: t["s"], n: len(t)}
	if b, ok := t["b"].(map[string]interface{}); ok {
		s.bc, s.nb = b["c"], len(b)
	}
	if arr, ok := t["arr"].([]interface{}); ok {
		s.narr = len(arr)
		if len(arr) == 2 {
			s.arr0, s.arr1 = arr[0], arr[1]
		}
	}
	return s
}

// sameJSONLeaf compares two JSON leaves (float64 / int64 after an integer assignment / bool / string) without forking.
func sameJSONLeaf(a, b interface{}) bool {
	switch x := a.(type) {
	case float64:
		y, ok := b.(float64)
		return ok && verif.SameFloat64(x, y)
	case int64:
		y, ok := b.(int64)
		return ok && x == y
	case bool:
		y, ok := b.(bool)
		return ok && verif.Iff(x, y)
	case string:
		y, ok := b.(string)
		return ok && x == y
	case nil:
		return b == nil
	}
	return false
}
