package zztier

// C20 — no loader crashes, hangs or over-allocates on arbitrary input (binary stream part).
// A valid stored stream is served to the real LoadKnowledgeBaseFromReader, except that ONE 8-byte field
// (every length prefix, element count, node type, salience, float payload - chosen by Choice) is replaced by
// 8 symbolic bytes. Every make() whose size is symbolic must be bounded by a modest function of the input
// length (SetAllocPolicy: the executor asserts it at the allocation site for ALL 2^64 values), no panic may
// escape, and no path may exhaust the executor's instruction / call-depth budget.

import (
	"io"

	"github.com/hyperjumptech/grule-rule-engine/ast"
	"github.com/hyperjumptech/grule-rule-engine/zzkb"
	verif "github.com/hyperjumptech/grule-rule-engine/zzverif"
)

// c20Reader serves data, replacing the k-th 8-byte read by symbolic bytes.
type c20Reader struct {
	data  []byte
	pos   int
	n8    int
	k     int
	sym   []byte
	hit   bool
	orig  uint64
	reads int
}

func (r *c20Reader) Read(p []byte) (int, error) {
	if len(p) == 0 {
		return 0, nil
	}
	if r.pos >= len(r.data) {
		return 0, io.EOF
	}
	n := len(p)
	if r.pos+n > len(r.data) {
		n = len(r.data) - r.pos
	}
	r.reads++
	if len(p) == 8 && n == 8 {
		if r.n8 == r.k {
			r.hit = true
			for i := 0; i < 8; i++ {
				r.orig |= uint64(r.data[r.pos+i]) << (8 * uint(i))
			}
			copy(p, r.sym)
			r.pos += 8
			r.n8++
			return 8, nil
		}
		r.n8++
	}
	copy(p, r.data[r.pos:r.pos+n])
	r.pos += n
	return n, nil
}

func c20Stream(tmpl string) []byte {
	lib := zzkb.LoadLibrary(tmpl)
	w := &vcWriter{}
	if err := lib.StoreKnowledgeBaseToWriter(w, "T", "1"); err != nil {
		panic(err)
	}
	// the stream's layout depends on map iteration order natively: pin it to the path
	return verif.Pin("stream", w.buf)
}

// count8 counts the 8-byte reads of a healthy load (concrete).
func c20Count8(data []byte) int {
	r := &c20Reader{data: data, k: -1}
	lib := ast.NewKnowledgeLibrary()
	_, _ = lib.LoadKnowledgeBaseFromReader(r, true)
	return r.n8
}

// VerifC20Field: lo..hi selects which 8-byte fields are mutated in this run (hi < 0: all).
func VerifC20Field(tmpl string, lo, hi int) {
	data := c20Stream(tmpl)
	total := c20Count8(data)
	if hi < 0 || hi > total {
		hi = total
	}
	if lo >= hi {
		verif.Stop("no field in range")
	}
	k := lo + verif.Choice("field", hi-lo)
	r := &c20Reader{data: data, k: k, sym: verif.Bytes("field-bytes", 8)}
	// allocation policy: at most 4 * input length + 128 KiB per allocation (a modest function of the input length);
	// representative sizes explored beyond the assertion: 0, 1 and two solver-chosen ones
	verif.SetAllocPolicy(4*len(data)+128*1024, 0, 1)
	verif.LimitIsViolation("C20:grb-loader-terminates-within-budget")
	lib := ast.NewKnowledgeLibrary()
	kb, err, pan := loadKB(r, true, lib)
	verif.Reach("c20:load-returned")
	if r.hit {
		verif.Reach("c20:field-mutated")
	}
	verif.Assert("C20:grb-loader-no-panic-escapes", !pan)
	verif.Assert("C20:grb-loader-returns-a-result-or-an-error", (kb != nil) != (err != nil))
	verif.Event("field", k, err != nil)
}

// ---------------------------------------------------------------- nested fields: the head of every longer read
//
// Some fields are not read from the stream directly but decoded later out of a byte blob (the payload of a string constant
// carries its own 8-byte length prefix, for one). c20BlobReader replaces the FIRST 8 bytes of the k-th read of 9 or more
// bytes (AST ids - 36 bytes, used as map keys - excepted) by symbolic bytes.
type c20BlobReader struct {
	data []byte
	pos  int
	nb   int
	k    int
	sym  []byte
	hit  bool
	size int
}

func (r *c20BlobReader) Read(p []byte) (int, error) {
	if len(p) == 0 {
		return 0, nil
	}
	if r.pos >= len(r.data) {
		return 0, io.EOF
	}
	n := len(p)
	if r.pos+n > len(r.data) {
		n = len(r.data) - r.pos
	}
	copy(p, r.data[r.pos:r.pos+n])
	r.pos += n
	if n >= 9 && n != 36 {
		if r.nb == r.k {
			copy(p, r.sym)
			r.hit = true
			r.size = n
		}
		r.nb++
	}
	return n, nil
}

func VerifC20Blob(tmpl string) {
	data := c20Stream(tmpl)
	r0 := &c20BlobReader{data: data, k: -1}
	lib0 := ast.NewKnowledgeLibrary()
	_, _ = lib0.LoadKnowledgeBaseFromReader(r0, true)
	k := verif.Choice("blob", r0.nb)
	r := &c20BlobReader{data: data, k: k, sym: verif.Bytes("blob-head", 8)}
	verif.SetAllocPolicy(4*len(data)+128*1024, 0, 1)
	verif.LimitIsViolation("C20:grb-loader-terminates-within-budget")
	lib := ast.NewKnowledgeLibrary()
	kb, err, pan := loadKB(r, true, lib)
	verif.Reach("c20:blob-load-returned")
	if r.hit {
		verif.Reach("c20:blob-head-mutated")
	}
	verif.Assert("C20:grb-loader-no-panic-escapes", !pan)
	verif.Assert("C20:grb-loader-returns-a-result-or-an-error", (kb != nil) != (err != nil))
	verif.Event("blob", k, r.size, err != nil)
}

// ---------------------------------------------------------------- structure-aware splicing: a node that names itself as its child

// c20SpliceReader replaces the k-th 36-byte string (an AST id) by the id of the node being read (the last id that was
// read twice in a row: the catalog key and the node's own NodeMeta.AstID), producing a self-referencing node.
type c20SpliceReader struct {
	data     []byte
	pos      int
	nID      int
	k        int
	last     string
	own      string
	hit      bool
	pendingN int
}

func (r *c20SpliceReader) Read(p []byte) (int, error) {
	if len(p) == 0 {
		return 0, nil
	}
	if r.pos >= len(r.data) {
		return 0, io.EOF
	}
	n := len(p)
	if r.pos+n > len(r.data) {
		n = len(r.data) - r.pos
	}
	copy(p, r.data[r.pos:r.pos+n])
	r.pos += n
	if n == 36 && len(p) == 36 {
		s := string(p)
		if s == r.last {
			r.own = s
		}
		r.last = s
		if r.nID == r.k && r.own != "" && s != r.own {
			copy(p, r.own)
			r.hit = true
		}
		r.nID++
	}
	return n, nil
}

func VerifC20Splice(tmpl string) {
	data := c20Stream(tmpl)
	// count the id-sized strings of a healthy load
	r0 := &c20SpliceReader{data: data, k: -1}
	lib0 := ast.NewKnowledgeLibrary()
	_, _ = lib0.LoadKnowledgeBaseFromReader(r0, true)
	total := r0.nID
	k := verif.Choice("id-string", total)
	r := &c20SpliceReader{data: data, k: k}
	verif.LimitIsViolation("C20:grb-loader-terminates-on-a-self-referencing-node")
	lib := ast.NewKnowledgeLibrary()
	kb, err, pan := loadKB(r, true, lib)
	verif.Reach("c20:splice-load-returned")
	if r.hit {
		verif.Reach("c20:id-spliced")
	}
	verif.Assert("C20:grb-loader-no-panic-escapes-on-spliced-ids", !pan)
	verif.Assert("C20:grb-loader-returns-a-result-or-an-error-on-spliced-ids", (kb != nil) != (err != nil))
	verif.Event("splice", k, r.hit, err != nil)
}
