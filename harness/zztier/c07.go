package zztier

// C07 — a rule's meaning never depends on which other rules share its knowledge base (Tier B, sibling pairs).
// Every near-identical pair is built natively ALONE and TOGETHER (both build orders); each rule is then evaluated and
// executed on copies of the same symbolic facts: candidate flag and all resulting facts must coincide.

import (
	"context"
	"strconv"

	"github.com/hyperjumptech/grule-rule-engine/ast"
	"github.com/hyperjumptech/grule-rule-engine/zzkb"
	verif "github.com/hyperjumptech/grule-rule-engine/zzverif"
)

type c07Out struct {
	can  bool
	can2 bool // the condition evaluated again after the rule's own action list (the next cycle's view)
	err2 bool
	err  bool
	xerr bool
	s    factSnap
}

func c07Run(lib *ast.KnowledgeLibrary, kbName, rule string, f0 *Fact) (c07Out, bool) {
	return c07RunVer(lib, kbName, "1", rule, f0)
}

func c07RunVer(lib *ast.KnowledgeLibrary, kbName, ver, rule string, f0 *Fact) (c07Out, bool) {
	var out c07Out
	kb, err := lib.NewKnowledgeBaseInstance(kbName, ver)
	if err != nil {
		return out, false
	}
	f := copyFact(f0)
	dc := ast.NewDataContext()
	dc.Add("F", f)
	dc.Add("N", f0.K) // a top-level context variable for the templates that use one
	kb.WorkingMemory.ResetAll()
	kb.InitializeContext(dc)
	re := kb.RuleEntries[rule]
	if re == nil {
		return out, false
	}
	can, eerr := re.Evaluate(context.Background(), dc, kb.WorkingMemory)
	out.can, out.err = can, eerr != nil
	// run the action list regardless of the condition: what it computes must not depend on the neighbours either
	xerr := re.Execute(context.Background(), dc, kb.WorkingMemory)
	out.xerr = xerr != nil
	if xerr == nil {
		can2, eerr2 := re.Evaluate(context.Background(), dc, kb.WorkingMemory)
		out.can2, out.err2 = can2, eerr2 != nil
	}
	out.s = snapFact(f, 0)
	return out, true
}

func c07Same(L string, a, b c07Out) {
	verif.Assert(L+"condition-fails-alike", a.err == b.err)
	verif.Assert(L+"candidate-flag-equal", verif.Iff(a.can, b.can))
	verif.Assert(L+"action-fails-alike", a.xerr == b.xerr)
	verif.Assert(L+"candidate-flag-after-its-own-actions-equal", verif.And(a.err2 == b.err2, verif.Iff(a.can2, b.can2)))
	x, y := &a.s.f, &b.s.f
	same := verif.And(x.I == y.I, verif.And(x.J == y.J, verif.And(x.K == y.K, verif.And(x.RI == y.RI,
		verif.And(verif.SameFloat64(x.X, y.X), verif.And(verif.SameFloat64(x.Y, y.Y), verif.And(verif.SameFloat64(x.RF, y.RF),
			verif.And(verif.Iff(x.B, y.B), verif.Iff(x.C, y.C)))))))))
	verif.Assert(L+"resulting-facts-equal", same)
	verif.Assert(L+"resulting-strings-equal", x.S == y.S && x.R == y.R && x.RS == y.RS)
	arr := verif.And(a.s.arr[0] == b.s.arr[0], verif.And(a.s.arr[1] == b.s.arr[1], a.s.arr[2] == b.s.arr[2]))
	verif.Assert(L+"resulting-slices-and-maps-equal", verif.And(arr, verif.And(a.s.ma == b.s.ma, a.s.mb == b.s.mb)))
}

func VerifC07Pair(idx int) {
	tag := c07Pairs[idx]
	lib := zzkb.LoadLibrary("c07_" + strconv.Itoa(idx))
	f0 := newFact("F", 0)
	verif.Reach("c07:pair")
	for _, r := range []string{"S1", "S2"} {
		alone := "A1"
		if r == "S2" {
			alone = "A2"
		}
		a, ok := c07Run(lib, alone, r, f0)
		verif.Assert("C07:pair("+tag+"):"+r+":instance-of-the-rule-alone", ok)
		if !ok {
			continue
		}
		for _, tk := range []string{"T12", "T21", "S12", "S21"} {
			t, ok := c07Run(lib, tk, r, f0)
			L := "C07:pair(" + tag + "):" + r + ":built-" + tk + ":"
			verif.Assert(L+"instance-of-the-pair", ok)
			if ok {
				c07Same(L, a, t)
			}
		}
	}
	verif.Event("pair", tag)
}

// VerifC07All enumerates all generated pairs (explored in parallel).
func VerifC07All() {
	VerifC07Pair(verif.Choice("pair", len(c07Pairs)))
}
