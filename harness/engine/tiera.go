package engine

// Tier A — the engine protocol over *arbitrary* rule sets of <= n rules.
//
// The real ExecuteWithContext / FetchMatchingRules, RuleEntry.Evaluate/Execute,
// KnowledgeBase.Reset/RetractRule, DataContext, BuiltInFunctions.Retract/Complete run on n
// rule entries whose bodies are nondeterministic stubs: a condition returns an arbitrary
// bool / a non-bool / an error / panics; an action retracts an arbitrary rule name (known or
// not) through the real Retract, may call the real Complete, may fail. Saliences and
// MaxCycle are SMT variables; Deleted, the error flag, the number of listeners and the
// cancellation point are enumerated by Choice. See DESIGN.md Appendix B.

import (
	"context"
	"errors"
	"reflect"
	"strings"
	"time"

	"github.com/hyperjumptech/grule-rule-engine/ast"
	verif "github.com/hyperjumptech/grule-rule-engine/zzverif"
)

const (
	fErr     = 1 << iota // conditions / actions may fail (error, non-bool, panic)
	fRetract             // actions may Retract / Complete
	fCancel              // the context may be cancelled at any environment call
	fDeleted             // entries may be Deleted (removed)
	fFlag                // ReturnErrOnFailedRuleEvaluation may be set
	fListen              // 0, 1 or 2 listeners (default: 1)
	fTwoEff              // two effects per action instead of one
	fActErr              // actions may fail (error / panic) while conditions stay plain booleans
)

const (
	evBC = iota // BeginCycle
	evW         // when-stub ran
	evEV        // EvaluateRuleEntry callback
	evEX        // ExecuteRuleEntry callback
	evT         // then-stub ran
)

const (
	outFalse = iota
	outTrue
	outNonBool
	outError
	outPanic
)

const (
	effNone = iota
	effRetract
	effRetractUnknown
	effComplete
	effRetractCaseVariant // Retract of a name that differs from a rule's name only in letter case: unknown, a no-op
)

type vaEvent struct {
	kind    int
	cycle   uint64
	rule    int
	cand    bool
	out     int // evW: outcome; evT: result (0 nil, 1 error, 2 panic)
	eff     [2]int
	effArg  [2]int
	lis     int  // listener index for callback events
	flagSet bool // cancellation flag at the *start* of this event
	flipped bool // the flag was flipped during this event
}

type vaWorld struct {
	n           int
	k           int // run-length bound: after k firings every condition is false
	feat        int
	names       []string
	entries     []*ast.RuleEntry
	whenIdx     map[*ast.WhenScope]int
	thenIdx     map[*ast.ThenScope]int
	sal         []int
	deleted     []bool
	events      []vaEvent
	fired       int
	cancel      bool
	defunc      *ast.BuiltInFunctions
	dc          ast.IDataContext
	complete    bool
	nListen     int
	deadline    bool // the context ends by deadline rather than by cancel()
	hasDeadline bool // the context carries a (far) deadline; it may still be cancelled by hand before
}

type vaCtx struct{ w *vaWorld }

// Deadline: a context created with WithTimeout / WithDeadline reports its deadline - also when it is cancelled by hand
// long before (hasDeadline: a deadline far in the future; what ends the context is still the flag).
func (c *vaCtx) Deadline() (time.Time, bool) {
	if c.w.hasDeadline {
		return time.Unix(4000000000, 0), true
	}
	return time.Time{}, false
}
func (c *vaCtx) Done() <-chan struct{} { return nil }
func (c *vaCtx) Value(key any) any     { return nil }
func (c *vaCtx) Err() error {
	if c.w.cancel {
		if c.w.deadline {
			return context.DeadlineExceeded
		}
		return context.Canceled
	}
	return nil
}

type vaListener struct {
	w   *vaWorld
	idx int
}

func (l *vaListener) BeginCycle(ctx context.Context, cycle uint64) {
	e := vaEvent{kind: evBC, cycle: cycle, lis: l.idx, flagSet: l.w.cancel}
	e.flipped = l.w.maybeCancel()
	l.w.events = append(l.w.events, e)
}
func (l *vaListener) EvaluateRuleEntry(ctx context.Context, cycle uint64, entry *ast.RuleEntry, candidate bool) {
	e := vaEvent{kind: evEV, cycle: cycle, rule: l.w.ruleOf(entry), cand: candidate, lis: l.idx, flagSet: l.w.cancel}
	e.flipped = l.w.maybeCancel()
	l.w.events = append(l.w.events, e)
}
func (l *vaListener) ExecuteRuleEntry(ctx context.Context, cycle uint64, entry *ast.RuleEntry) {
	e := vaEvent{kind: evEX, cycle: cycle, rule: l.w.ruleOf(entry), lis: l.idx, flagSet: l.w.cancel}
	e.flipped = l.w.maybeCancel()
	l.w.events = append(l.w.events, e)
}

func (w *vaWorld) ruleOf(e *ast.RuleEntry) int {
	for i, x := range w.entries {
		if x == e {
			return i
		}
	}
	return -1
}

// maybeCancel: the cancellation flag may flip inside any environment call.
func (w *vaWorld) maybeCancel() bool {
	if w.feat&fCancel == 0 || w.cancel {
		return false
	}
	switch verif.Choice("cancel-here", 3) {
	case 1:
		w.cancel = true
		return true
	case 2:
		w.cancel, w.deadline = true, true
		return true
	}
	return false
}

func (w *vaWorld) whenStub(e *ast.WhenScope, dc ast.IDataContext, wm *ast.WorkingMemory) (reflect.Value, error) {
	r := w.whenIdx[e]
	ev := vaEvent{kind: evW, rule: r, flagSet: w.cancel}
	out := outFalse
	if w.fired < w.k {
		if w.feat&fErr != 0 {
			out = verif.Choice("when-outcome", 5)
		} else {
			out = verif.Choice("when-outcome", 2)
		}
	}
	ev.out = out
	ev.flipped = w.maybeCancel()
	w.events = append(w.events, ev)
	switch out {
	case outFalse:
		return reflect.ValueOf(false), nil
	case outTrue:
		return reflect.ValueOf(true), nil
	case outNonBool:
		return reflect.ValueOf(int64(1)), nil
	case outError:
		return reflect.Value{}, errors.New("stub condition error")
	}
	// a user method may panic with any value
	switch verif.Choice("panic-value", 3) {
	case 0:
		panic("stub condition panic")
	case 1:
		panic(errors.New("stub condition panic (error value)"))
	}
	panic(vaPanicValue{code: 42})
}

type vaPanicValue struct{ code int }

func (w *vaWorld) thenStub(e *ast.ThenScope, dc ast.IDataContext, wm *ast.WorkingMemory) error {
	r := w.thenIdx[e]
	w.fired++
	ev := vaEvent{kind: evT, rule: r, flagSet: w.cancel}
	idx := len(w.events)
	w.events = append(w.events, ev)
	neff := 1
	if w.feat&fTwoEff != 0 {
		neff = 2
	}
	for k := 0; k < neff; k++ {
		if w.feat&fRetract == 0 {
			break
		}
		c := verif.Choice("then-effect", w.n+4)
		switch {
		case c == 0:
		case c <= w.n:
			w.events[idx].eff[k], w.events[idx].effArg[k] = effRetract, c-1
			w.defunc.Retract(w.names[c-1])
		case c == w.n+1:
			w.events[idx].eff[k] = effRetractUnknown
			w.defunc.Retract("NoSuchRule")
		case c == w.n+2:
			w.events[idx].eff[k] = effRetractCaseVariant
			w.defunc.Retract(strings.ToLower(w.names[0]))
		default:
			w.events[idx].eff[k] = effComplete
			w.defunc.Complete()
		}
	}
	w.events[idx].flipped = w.maybeCancel()
	res := 0
	if w.feat&(fErr|fActErr) != 0 {
		res = verif.Choice("then-result", 3)
	}
	w.events[idx].out = res
	switch res {
	case 1:
		return errors.New("stub action error")
	case 2:
		switch verif.Choice("panic-value", 3) {
		case 0:
			panic("stub action panic")
		case 1:
			panic(errors.New("stub action panic (error value)"))
		}
		panic(vaPanicValue{code: 7})
	}
	return nil
}

var vaNames = []string{"R0", "R1", "R2", "R3", "R4", "R5"}

func vaNewWorld(n, k, feat int) (*vaWorld, *ast.KnowledgeBase) {
	w := &vaWorld{n: n, k: k, feat: feat, whenIdx: map[*ast.WhenScope]int{}, thenIdx: map[*ast.ThenScope]int{}}
	kb := &ast.KnowledgeBase{Name: "T", Version: "1", WorkingMemory: ast.NewWorkingMemory("T", "1"), RuleEntries: map[string]*ast.RuleEntry{}}
	for i := 0; i < n; i++ {
		ws := &ast.WhenScope{AstID: "w" + vaNames[i], Expression: &ast.Expression{AstID: "e" + vaNames[i], GrlText: "cond"}}
		ts := &ast.ThenScope{AstID: "t" + vaNames[i]}
		s := verif.Int("salience")
		verif.Assume(verif.And(s >= -2147483648, s <= 2147483647))
		del := false
		if feat&fDeleted != 0 {
			del = verif.Choice("deleted", 2) == 1
		}
		re := &ast.RuleEntry{AstID: "r" + vaNames[i], RuleName: vaNames[i], RuleDescription: "d", Salience: s, WhenScope: ws, ThenScope: ts, Deleted: del}
		key := vaNames[i]
		if del {
			// what RemoveRuleEntry leaves behind: a tomb-stoned entry under a Deleted_ key
			re.RuleName = "Deleted_" + vaNames[i]
			key = re.RuleName
		}
		kb.RuleEntries[key] = re
		w.names = append(w.names, vaNames[i])
		w.entries = append(w.entries, re)
		w.sal = append(w.sal, s)
		w.deleted = append(w.deleted, del)
		w.whenIdx[ws] = i
		w.thenIdx[ts] = i
	}
	ast.VerifWhenHook = w.whenStub
	ast.VerifThenHook = w.thenStub
	return w, kb
}

// vaInstallDefunc finds the real BuiltInFunctions the engine put into the data context.
type vaDC struct {
	ast.IDataContext
	w *vaWorld
}

func (d *vaDC) Add(key string, obj interface{}) error {
	if f, ok := obj.(*ast.BuiltInFunctions); ok && key == "DEFUNC" {
		d.w.defunc = f
	}
	return d.IDataContext.Add(key, obj)
}

type vaResult struct {
	err      error
	panicked bool
	panicVal string
}

func vaExecute(w *vaWorld, kb *ast.KnowledgeBase, eng *GruleEngine, ctx context.Context) (res vaResult) {
	dc := &vaDC{IDataContext: ast.NewDataContext(), w: w}
	w.dc = dc
	defer func() {
		if r := recover(); r != nil {
			res.panicked = true
		}
	}()
	if ctx == nil {
		res.err = eng.Execute(dc, kb)
	} else {
		res.err = eng.ExecuteWithContext(ctx, dc, kb)
	}
	return
}

func vaEngine(w *vaWorld) *GruleEngine {
	eng := &GruleEngine{MaxCycle: verif.Uint64("max-cycle")}
	w.nListen = 1
	if w.feat&fListen != 0 {
		w.nListen = verif.Choice("listeners", 3)
	}
	for i := 0; i < w.nListen; i++ {
		eng.Listeners = append(eng.Listeners, &vaListener{w: w, idx: i})
	}
	if w.feat&fFlag != 0 {
		eng.ReturnErrOnFailedRuleEvaluation = verif.Choice("err-flag", 2) == 1
	}
	return eng
}

// ---------------------------------------------------------------- oracles

type vaCycle struct {
	num    uint64
	bc     bool
	w      map[int]int // rule -> when outcome (only rules whose stub ran)
	wCount map[int]int
	ev     map[int]int // rule -> number of EV callbacks (listener 0)
	evCand map[int]bool
	ex     []int
	t      []int
	order  []int // event kinds in order
}

// vaCheck evaluates all Tier A oracles on the recorded run. first: index of the first event of this call.
func vaCheck(w *vaWorld, eng *GruleEngine, res vaResult, first int, preCancelled bool) {
	evs := w.events[first:]
	errText := ""
	if res.err != nil {
		errText = res.err.Error()
	}
	isLimit := strings.Contains(errText, "successfully selected rule candidate")
	isCtx := res.err != nil && ((!w.deadline && errors.Is(res.err, context.Canceled)) || (w.deadline && errors.Is(res.err, context.DeadlineExceeded)))

	vaTrace(w, evs, res)
	verif.Assert("C14:no-panic-escapes", !res.panicked)
	if res.panicked {
		return
	}

	// --- listeners all see the same sequence (C06)
	if w.nListen == 2 {
		var a, b []vaEvent
		for _, e := range evs {
			if e.kind == evBC || e.kind == evEV || e.kind == evEX {
				if e.lis == 0 {
					a = append(a, e)
				} else {
					b = append(b, e)
				}
			}
		}
		same := len(a) == len(b)
		for i := 0; same && i < len(a); i++ {
			same = a[i].kind == b[i].kind && a[i].cycle == b[i].cycle && a[i].rule == b[i].rule && a[i].cand == b[i].cand
		}
		verif.Assert("C06:all-listeners-see-the-same-sequence", same)
	}

	// --- split into cycles (by listener 0's BeginCycle when a listener exists, else by W repetition)
	retracted := make([]bool, w.n) // by then-stub effects so far in this call
	nT := 0
	completeCalled := false
	failedAction := -1
	var cycles []*vaCycle
	var cur *vaCycle
	newCycle := func(num uint64, bc bool) {
		cur = &vaCycle{num: num, bc: bc, w: map[int]int{}, wCount: map[int]int{}, ev: map[int]int{}, evCand: map[int]bool{}}
		cycles = append(cycles, cur)
	}
	flagAt := -1                     // index (in evs) of the event during which the flag flipped
	cancelledInsideAnAction := false // the flag flipped inside an action that then completed normally (and did not call Complete)
	stubAfterFlag := false
	whenAfterFlagOK := true
	for i, e := range evs {
		if e.flipped && flagAt < 0 {
			flagAt = i
		}
		if e.lis != 0 {
			continue
		}
		switch e.kind {
		case evBC:
			newCycle(e.cycle, true)
		case evW:
			if cur == nil || (!cur.bc && (cur.wCount[e.rule] > 0 || len(cur.t) > 0)) {
				newCycle(0, false)
			}
			// C10/C16: a retracted or removed rule is never evaluated
			verif.Assert("C10:retracted-rule-not-evaluated", !retracted[e.rule])
			verif.Assert("C16:removed-rule-not-evaluated", !w.deleted[e.rule])
			verif.Assert("C10:nothing-evaluated-after-Complete", !completeCalled)
			verif.Assert("C14:nothing-evaluated-after-a-failed-action", failedAction < 0)
			if e.flagSet || preCancelled {
				whenAfterFlagOK = false
			}
			cur.w[e.rule] = e.out
			cur.wCount[e.rule]++
			cur.order = append(cur.order, evW)
		case evEV:
			if cur == nil {
				newCycle(e.cycle, false)
			}
			verif.Assert("C06:evaluation-reported-in-the-running-cycle", !cur.bc || cur.num == e.cycle)
			cur.ev[e.rule]++
			cur.evCand[e.rule] = e.cand
			cur.order = append(cur.order, evEV)
		case evEX:
			if cur == nil {
				newCycle(e.cycle, false)
			}
			verif.Assert("C06:execution-reported-in-the-running-cycle", !cur.bc || cur.num == e.cycle)
			cur.ex = append(cur.ex, e.rule)
			cur.order = append(cur.order, evEX)
		case evT:
			if cur == nil {
				newCycle(0, false)
			}
			nT++
			cur.t = append(cur.t, e.rule)
			cur.order = append(cur.order, evT)
			verif.Assert("C10:retracted-rule-not-fired", !retracted[e.rule])
			verif.Assert("C16:removed-rule-not-fired", !w.deleted[e.rule])
			verif.Assert("C10:nothing-fired-after-Complete", !completeCalled)
			verif.Assert("C14:nothing-fired-after-a-failed-action", failedAction < 0)
			// C15: no action starts once the context is cancelled
			verif.Assert("C15:no-action-starts-after-cancellation", !e.flagSet && !preCancelled)
			if e.flagSet || preCancelled {
				stubAfterFlag = true
			}
			if e.flipped && e.out == 0 && e.eff[0] != effComplete && e.eff[1] != effComplete {
				cancelledInsideAnAction = true
			}
			// C03: the fired rule is a candidate of its cycle with maximal salience
			isCand := cur.w[e.rule] == outTrue && cur.wCount[e.rule] > 0
			verif.Assert("C03:fired-rule-was-satisfied-in-this-cycle", isCand)
			verif.Assert("C01:fired-rule-was-satisfied-in-this-cycle", isCand)
			for r := 0; r < w.n; r++ {
				if cur.wCount[r] > 0 && cur.w[r] == outTrue && r != e.rule {
					verif.Assert("C03:fired-rule-has-maximal-salience", w.sal[e.rule] >= w.sal[r])
				}
			}
			verif.Assert("C03:at-most-one-firing-per-cycle", len(cur.t) == 1)
			for k := 0; k < 2; k++ {
				switch e.eff[k] {
				case effRetract:
					retracted[e.effArg[k]] = true
				case effComplete:
					completeCalled = true
				}
			}
			if e.out != 0 {
				failedAction = e.rule
			}
		}
	}
	_ = stubAfterFlag
	if w.nListen == 0 && cur != nil && len(cur.t) == 1 && res.err == nil && !completeCalled {
		// without listeners an evaluation phase over zero active rules leaves no event: it is the final, empty cycle
		newCycle(0, false)
	}

	// --- per-cycle structure (C06, C02, C14)
	retracted = make([]bool, w.n)
	firedSoFar := 0
	for ci, c := range cycles {
		last := ci == len(cycles)-1
		if w.nListen > 0 {
			verif.Assert("C06:cycles-numbered-consecutively-from-1", c.bc && c.num == uint64(ci+1))
		}
		aborted := last && (res.err != nil) && len(c.t) == 0 // the run ended inside this cycle's evaluation phase
		for r := 0; r < w.n; r++ {
			act := !w.deleted[r] && !retracted[r]
			if !act {
				verif.Assert("C06:inactive-rule-not-reported", c.ev[r] == 0)
				continue
			}
			if !aborted {
				verif.Assert("C06:each-active-rule-evaluated-exactly-once-per-cycle", c.wCount[r] == 1)
				verif.Assert("C02:no-active-rule-overlooked-in-a-cycle", c.wCount[r] == 1)
				verif.Assert("C03:every-active-rule-takes-part-in-conflict-resolution", c.wCount[r] == 1)
				// C10: Retract affects exactly the named rule, Complete nothing but the run's end: every rule that was
				// neither removed nor retracted BY ITS EXACT NAME still takes part (an unknown or case-variant name retracts nothing)
				verif.Assert("C10:only-the-named-rule-is-retracted", c.wCount[r] == 1)
				verif.Assert("C14:rule-whose-condition-failed-earlier-is-tried-again-in-every-later-cycle", c.wCount[r] == 1)
				if w.nListen > 0 {
					verif.Assert("C06:each-active-rule-reported-exactly-once-per-cycle", c.ev[r] == 1)
				}
			} else {
				verif.Assert("C06:each-active-rule-evaluated-at-most-once-per-cycle", c.wCount[r] <= 1)
				if w.nListen > 0 {
					verif.Assert("C06:each-active-rule-reported-at-most-once-per-cycle", c.ev[r] <= 1)
				}
			}
			if c.ev[r] > 0 {
				verif.Assert("C06:reported-candidate-status-is-the-real-one", c.wCount[r] > 0 && c.evCand[r] == (c.w[r] == outTrue))
				verif.Assert("C14:failing-condition-is-simply-not-a-candidate", c.w[r] == outTrue || !c.evCand[r])
			}
		}
		verif.Assert("C06:at-most-one-execution-per-cycle", len(c.ex) <= 1 && len(c.t) <= 1)
		if len(c.ex) == 1 {
			verif.Assert("C06:executed-rule-was-reported-candidate-in-the-same-cycle", c.ev[c.ex[0]] == 1 && c.evCand[c.ex[0]])
			if len(c.t) == 1 {
				verif.Assert("C06:execution-callback-names-the-fired-rule", c.ex[0] == c.t[0])
			}
		}
		if len(c.t) == 1 && w.nListen > 0 {
			verif.Assert("C06:every-firing-is-announced", len(c.ex) == 1)
		}
		if len(c.ex) == 1 && len(c.t) == 0 {
			// an announced execution that never happens: only a cancellation noticed between announcement and action explains it
			verif.Assert("C06:an-announced-execution-really-happens", w.feat&fCancel != 0 && w.cancel)
		}
		if len(c.t) == 1 {
			// evaluation phase strictly precedes the firing; nothing of the next cycle before the action ends
			tpos := -1
			for i, k := range c.order {
				if k == evT {
					tpos = i
				}
			}
			okOrder := true
			for i, k := range c.order {
				if (k == evW || k == evEV) && i > tpos {
					okOrder = false
				}
			}
			verif.Assert("C03:action-applied-before-any-later-evaluation", okOrder)
			firedSoFar++
		}
		hasCand := false
		for r := 0; r < w.n; r++ {
			if c.wCount[r] > 0 && c.w[r] == outTrue {
				hasCand = true
			}
		}
		if !last {
			verif.Assert("C06:a-cycle-with-a-candidate-fires", len(c.t) == 1)
		}
		if last {
			switch {
			case isLimit:
				verif.Assert("C06:limit-error-only-when-a-candidate-exists", hasCand && len(c.t) == 0)
				verif.Assert("C06:limit-error-exactly-at-the-budget", uint64(firedSoFar) == eng.MaxCycle)
			case res.err == nil && !completeCalled:
				verif.Assert("C06:nil-only-at-quiescence", !hasCand && len(c.t) == 0)
				verif.Assert("C02:nil-only-at-quiescence", !hasCand && len(c.t) == 0)
				for r := 0; r < w.n; r++ {
					if !w.deleted[r] && !retracted[r] {
						verif.Assert("C15:nil-means-every-active-rule-was-really-evaluated", c.wCount[r] == 1)
					}
				}
			}
			if hasCand && len(c.t) == 0 && !aborted {
				verif.Assert("C06:a-candidate-without-firing-needs-an-error", res.err != nil)
			}
		}
		// effects of this cycle's action
		for _, e := range evs {
			_ = e
		}
		if len(c.t) == 1 {
			// find the T event of this cycle to apply its retracts
			cnt := 0
			for _, e := range evs {
				if e.kind == evT {
					cnt++
					if cnt == firedSoFar {
						for k := 0; k < 2; k++ {
							if e.eff[k] == effRetract {
								retracted[e.effArg[k]] = true
							}
						}
					}
				}
			}
		}
	}
	verif.Assert("C06:fires-at-most-MaxCycle-rules", uint64(nT) <= eng.MaxCycle)

	// --- results (C06, C10, C14, C15)
	if completeCalled && failedAction < 0 && !isCtx {
		verif.Assert("C10:Execute-returns-nil-after-Complete", res.err == nil)
	}
	if failedAction >= 0 {
		verif.Assert("C14:action-failure-is-returned", res.err != nil)
		verif.Assert("C14:action-error-names-the-rule", strings.Contains(errText, w.names[failedAction]))
	}
	// a failing condition: reported with the flag, contained without
	condFailed := -1
	for _, e := range evs {
		if e.kind == evW && e.out >= outNonBool && condFailed < 0 {
			condFailed = e.rule
		}
	}
	if condFailed >= 0 && eng.ReturnErrOnFailedRuleEvaluation {
		verif.Assert("C14:condition-failure-is-returned-when-the-flag-is-set", res.err != nil)
		if !isCtx && !isLimit && failedAction < 0 {
			verif.Assert("C14:condition-error-names-the-rule", strings.Contains(errText, w.names[condFailed]))
		}
	}
	if res.err != nil && !isLimit && !isCtx && failedAction < 0 {
		verif.Assert("C14:an-error-has-a-cause", condFailed >= 0 && eng.ReturnErrOnFailedRuleEvaluation)
	}
	if w.feat&fCancel == 0 && !preCancelled {
		verif.Assert("C15:no-context-error-without-cancellation", !isCtx)
	}
	// C15: cancelled before or during the run
	verif.Assert("C15:no-condition-starts-after-cancellation", whenAfterFlagOK)
	if preCancelled {
		verif.Assert("C15:pre-cancelled-context-fires-nothing", nT == 0)
		verif.Assert("C15:pre-cancelled-context-returns-its-error", isCtx)
	}
	if cancelledInsideAnAction && !completeCalled {
		// whatever the rule pool looks like afterwards (every rule may have been retracted): the run ends with the context's error
		verif.Assert("C15:cancellation-inside-an-action-ends-the-run-with-the-context-error", isCtx)
	}
	if res.err != nil && (flagAt >= 0 || preCancelled) && failedAction < 0 && !isLimit && !(condFailed >= 0 && eng.ReturnErrOnFailedRuleEvaluation) {
		verif.Assert("C15:cancellation-error-is-the-context-error", isCtx)
	}
}

// VerifTierA: one Execute on a fresh abstract knowledge base.
func VerifTierA(n, k, feat int) {
	w, kb := vaNewWorld(n, k, feat)
	eng := vaEngine(w)
	var ctx context.Context
	pre := false
	if feat&fCancel != 0 {
		ctx = &vaCtx{w: w}
		w.hasDeadline = verif.Choice("context-carries-a-deadline", 2) == 1
		switch verif.Choice("pre-cancelled", 3) {
		case 1:
			w.cancel, pre = true, true
		case 2:
			w.cancel, w.deadline, pre = true, true, true
		}
	}
	res := vaExecute(w, kb, eng, ctx)
	verif.Reach("tierA:execute-returned")
	if len(w.events) > 0 {
		verif.Reach("tierA:some-event")
	}
	if w.fired > 0 {
		verif.Reach("tierA:a-rule-fired")
	}
	vaCheck(w, eng, res, 0, pre)
}

var vaKindNames = []string{"BC", "W", "EV", "EX", "T"}

// vaTrace writes the recorded run into the path's trace (compared with the native run on replay).
func vaTrace(w *vaWorld, evs []vaEvent, res vaResult) {
	for _, e := range evs {
		verif.Event(vaKindNames[e.kind], "l", e.lis, "c", e.cycle, "r", e.rule, "cand", e.cand, "out", e.out, "eff", e.eff[0], e.effArg[0], e.eff[1], e.effArg[1], "flag", e.flagSet, e.flipped)
	}
	if res.err != nil {
		// the class only: the limit error's text embeds MaxCycle, which is symbolic here
		t := res.err.Error()
		switch {
		case strings.Contains(t, "successfully selected rule candidate"):
			verif.Event("result", "error", "cycle-limit")
		case errors.Is(res.err, context.Canceled) || errors.Is(res.err, context.DeadlineExceeded):
			verif.Event("result", "error", "context")
		default:
			verif.Event("result", "error", t)
		}
	} else {
		verif.Event("result", "nil", res.panicked)
	}
}

// ---------------------------------------------------------------- FetchMatchingRules (C11)

type vaFetch struct {
	rules    []*ast.RuleEntry
	err      error
	panicked bool
}

func vaFetchCall(w *vaWorld, kb *ast.KnowledgeBase, eng *GruleEngine) (res vaFetch) {
	dc := &vaDC{IDataContext: ast.NewDataContext(), w: w}
	w.dc = dc
	defer func() {
		if r := recover(); r != nil {
			res.panicked = true
		}
	}()
	res.rules, res.err = eng.FetchMatchingRules(dc, kb)
	return
}

// vaCheckFetch: the C11 oracle on the events of one FetchMatchingRules call.
func vaCheckFetch(w *vaWorld, eng *GruleEngine, res vaFetch, first int) {
	evs := w.events[first:]
	for _, e := range evs {
		verif.Event(vaKindNames[e.kind], "r", e.rule, "out", e.out)
	}
	verif.Assert("C14:no-panic-escapes", !res.panicked)
	if res.panicked {
		return
	}
	wCount := make([]int, w.n)
	out := make([]int, w.n)
	failed := -1
	nT := 0
	for _, e := range evs {
		switch e.kind {
		case evW:
			wCount[e.rule]++
			out[e.rule] = e.out
			if e.out >= outNonBool && failed < 0 && !w.deleted[e.rule] {
				failed = e.rule
			}
			verif.Assert("C16:removed-rule-not-evaluated", !w.deleted[e.rule])
			verif.Assert("C11:removed-rule-not-evaluated", !w.deleted[e.rule])
		case evT:
			nT++
		}
	}
	verif.Assert("C11:no-action-executed", nT == 0)
	if failed >= 0 && eng.ReturnErrOnFailedRuleEvaluation {
		verif.Assert("C11:evaluation-error-returned-when-the-flag-is-set", res.err != nil)
		verif.Assert("C14:condition-failure-is-returned-when-the-flag-is-set", res.err != nil)
		return
	}
	verif.Assert("C11:no-error-otherwise", res.err == nil)
	if res.err != nil {
		return
	}
	// exactly the satisfied, non-removed rules, each once
	count := make([]int, w.n)
	for _, re := range res.rules {
		r := w.ruleOf(re)
		verif.Assert("C11:returned-rule-belongs-to-the-knowledge-base", r >= 0)
		if r >= 0 {
			count[r]++
		}
	}
	for r := 0; r < w.n; r++ {
		if w.deleted[r] {
			verif.Assert("C11:removed-rule-not-returned", count[r] == 0)
			verif.Assert("C16:removed-rule-not-returned", count[r] == 0)
			continue
		}
		verif.Assert("C11:every-rule-evaluated-once", wCount[r] == 1)
		verif.Assert("C08:every-rule-evaluated-as-on-a-fresh-instance", wCount[r] == 1)
		if wCount[r] == 1 && out[r] == outTrue {
			verif.Assert("C11:satisfied-rule-returned-exactly-once", count[r] == 1)
		} else {
			verif.Assert("C11:unsatisfied-or-failing-rule-not-returned", count[r] == 0)
		}
	}
	for i := 0; i+1 < len(res.rules); i++ {
		verif.Assert("C11:non-increasing-salience", res.rules[i].Salience >= res.rules[i+1].Salience)
	}
	// the returned entries carry the saliences the rules were given
	for _, re := range res.rules {
		if r := w.ruleOf(re); r >= 0 {
			verif.Assert("C11:salience-unchanged", re.Salience == w.sal[r])
		}
	}
}

// VerifTierAFetch: FetchMatchingRules on a fresh abstract knowledge base.
func VerifTierAFetch(n, feat int) {
	w, kb := vaNewWorld(n, 1, feat)
	eng := vaEngine(w)
	res := vaFetchCall(w, kb, eng)
	verif.Reach("tierA:fetch-returned")
	if len(res.rules) > 1 {
		verif.Reach("tierA:fetch-returned-several")
	}
	vaCheckFetch(w, eng, res, 0)
}

// ---------------------------------------------------------------- histories (C08)

// VerifTierAHistory: up to `calls` calls on ONE abstract knowledge-base instance, each with a new
// data context: Execute / ExecuteWithContext (cancellable) / FetchMatchingRules. Every call must
// behave as on a fresh instance: all Tier A oracles are re-asserted from a clean state.
var vaHistCtxOnly bool

// VerifTierAHistoryCtx (C15): the same histories, with the cancellation flag confined to the calls that were given a
// context - a plain Execute has none, so a flip inside it is not a cancellation of anything and the C15 oracles
// would misread it. (VerifTierAHistory itself lets the flag flip there as noise for the C08 oracles.)
func VerifTierAHistoryCtx(n, k, calls, feat int) {
	vaHistCtxOnly = true
	VerifTierAHistory(n, k, calls, feat)
}

func VerifTierAHistory(n, k, calls, feat int) {
	w, kb := vaNewWorld(n, k, feat)
	eng := vaEngine(w)
	for c := 0; c < calls; c++ {
		first := len(w.events)
		w.fired = 0
		w.cancel, w.deadline = false, false
		kind := verif.Choice("call-kind", 3)
		switch kind {
		case 0:
			f := w.feat
			if vaHistCtxOnly {
				// no context in this call: nothing can be cancelled, so the flag must not flip inside it either
				w.feat &^= fCancel
			}
			res := vaExecute(w, kb, eng, nil)
			w.feat &^= fCancel
			vaCheck(w, eng, res, first, false)
			w.feat = f
		case 1:
			ctx := &vaCtx{w: w}
			pre := false
			if w.feat&fCancel != 0 && verif.Choice("pre-cancelled", 2) == 1 {
				w.cancel, pre = true, true
			}
			res := vaExecute(w, kb, eng, ctx)
			vaCheck(w, eng, res, first, pre)
		case 2:
			f := w.feat
			w.feat &^= fCancel
			res := vaFetchCall(w, kb, eng)
			vaCheckFetch(w, eng, res, first)
			w.feat = f
		}
		if c > 0 {
			verif.Reach("tierA:later-call-checked")
			// C08: in the first evaluation phase of a later call every non-removed rule is evaluated
			seen := make([]bool, w.n)
			for _, e := range w.events[first:] {
				if e.kind == evT {
					break
				}
				if e.kind == evW {
					seen[e.rule] = true
				}
			}
			cut := false
			for _, e := range w.events[first:] {
				if e.flipped {
					cut = true
				}
			}
			for r := 0; r < w.n; r++ {
				if !w.deleted[r] && !cut && !vaEndedEarly(w, first) {
					verif.Assert("C08:later-call-evaluates-every-rule-like-a-fresh-instance", seen[r])
				}
			}
		}
	}
}

// vaEndedEarly: the call's first evaluation phase was cut short legitimately (evaluation error with the flag set, pre-cancelled).
func vaEndedEarly(w *vaWorld, first int) bool {
	for _, e := range w.events[first:] {
		if e.kind == evT {
			return false
		}
		if e.kind == evW && e.out >= outNonBool {
			return true
		}
		if e.flagSet {
			return true
		}
	}
	if len(w.events) == first {
		return true // nothing ran at all (pre-cancelled or nothing to do)
	}
	return false
}
