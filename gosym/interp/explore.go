package interp

// Path exploration by re-execution (DART style) and the solver pipes.

import (
	"bufio"
	"fmt"
	"io"
	"os"
	"os/exec"
	"sort"
	"strconv"
	"strings"
	"sync"
	"time"
)

// ---------------------------------------------------------------- control panics

type endKind int

const (
	endInfeasible  endKind = iota // decision prefix became infeasible (should not happen) or Assume(false)
	endUnsupported                // construct the executor does not model
	endOutside                    // left the property's stated domain (counted)
	endLimit                      // per-path budget exhausted
	endAssume                     // Assume() pruned the path
	endStop                       // harness asked to stop / violated assertion cannot be assumed
	endExhausted                  // queued "another value?" alternative of a concretisation had none (not an error)
)

func (k endKind) String() string {
	return [...]string{"infeasible", "unsupported", "outside", "limit", "assume", "stop", "exhausted"}[k]
}

// pathEnd is the executor's own control panic. It is never visible to the target's recover().
type pathEnd struct {
	kind endKind
	msg  string
}

func unsupported(msg string) pathEnd { return pathEnd{kind: endUnsupported, msg: msg} }

// runtimeErr is a panic value the target program can recover (like a Go run-time error).
func runtimeErr(msg string) string { return msg }

// ---------------------------------------------------------------- solver

type Solver struct {
	Name    string
	cmd     *exec.Cmd
	in      *bufio.Writer
	out     *bufio.Reader
	Queries int
	Time    time.Duration
	dead    bool
}

func SolverArgv(name string, timeoutMs int) []string {
	switch name {
	case "z3-new", "z3":
		return []string{name, "-in", fmt.Sprintf("-t:%d", timeoutMs)}
	case "cvc5":
		return []string{"cvc5", "--incremental", "--lang=smt2", "--produce-models", fmt.Sprintf("--tlimit-per=%d", timeoutMs)}
	}
	return []string{name}
}

func NewSolver(name string, timeoutMs int) (*Solver, error) {
	argv := SolverArgv(name, timeoutMs)
	cmd := exec.Command(argv[0], argv[1:]...)
	in, err := cmd.StdinPipe()
	if err != nil {
		return nil, err
	}
	outp, err := cmd.StdoutPipe()
	if err != nil {
		return nil, err
	}
	cmd.Stderr = nil
	if err := cmd.Start(); err != nil {
		return nil, err
	}
	s := &Solver{Name: name, cmd: cmd, in: bufio.NewWriterSize(in, 1<<16), out: bufio.NewReaderSize(outp, 1<<16)}
	return s, nil
}

func (s *Solver) Close() {
	if s == nil || s.cmd == nil {
		return
	}
	s.in.WriteString("(exit)\n")
	s.in.Flush()
	s.cmd.Process.Kill()
	s.cmd.Wait()
}

func (s *Solver) send(line string) {
	s.in.WriteString(line)
	s.in.WriteByte('\n')
}

func (s *Solver) readLine() string {
	s.in.Flush()
	line, err := s.out.ReadString('\n')
	if err != nil && err != io.EOF {
		s.dead = true
		return "(error \"solver pipe: " + err.Error() + "\")"
	}
	if err == io.EOF && line == "" {
		s.dead = true
		return "(error \"solver exited\")"
	}
	return strings.TrimSpace(line)
}

// checkSat runs (check-sat) under an optional extra assertion in a push/pop frame.
// keep=true leaves the frame open (caller must pop) so that a model can be read.
func (s *Solver) checkSat(extra string, keep bool) string {
	t0 := time.Now()
	s.Queries++
	s.send("(push 1)")
	if extra != "" {
		s.send("(assert " + extra + ")")
	}
	s.send("(check-sat)")
	r := s.readLine()
	for strings.HasPrefix(r, "(error") {
		// an error line: the whole answer is inconclusive. Drain until the verdict line.
		nxt := s.readLine()
		if nxt == "sat" || nxt == "unsat" || nxt == "unknown" || s.dead {
			r = "error"
			break
		}
		r = nxt
	}
	if r != "sat" && r != "unsat" && r != "unknown" {
		r = "error"
	}
	if !keep {
		s.send("(pop 1)")
	}
	d := time.Since(t0)
	s.Time += d
	if slowLogMs > 0 && d > time.Duration(slowLogMs)*time.Millisecond {
		fmt.Fprintf(os.Stderr, "SLOW %s %.1fs %s: %s\n", s.Name, d.Seconds(), r, extra)
	}
	return r
}

var slowLogMs = func() int { n, _ := strconv.Atoi(os.Getenv("GOSYM_SLOW")); return n }()

func (s *Solver) pop() { s.send("(pop 1)") }

// getValues reads the values of the given constants from the current model.
func (s *Solver) getValues(names []string) map[string]string {
	out := map[string]string{}
	const chunk = 200
	for i := 0; i < len(names); i += chunk {
		j := i + chunk
		if j > len(names) {
			j = len(names)
		}
		s.send("(get-value (" + strings.Join(names[i:j], " ") + "))")
		txt := s.readSexp()
		for _, kv := range parsePairs(txt) {
			out[kv[0]] = kv[1]
		}
	}
	return out
}

// readSexp reads one balanced s-expression (possibly spanning lines).
func (s *Solver) readSexp() string {
	s.in.Flush()
	var b strings.Builder
	depth, started, inStr := 0, false, false
	for {
		c, err := s.out.ReadByte()
		if err != nil {
			s.dead = true
			return b.String()
		}
		b.WriteByte(c)
		if inStr {
			if c == '"' {
				inStr = false
			}
			continue
		}
		switch c {
		case '"':
			inStr = true
		case '(':
			depth++
			started = true
		case ')':
			depth--
		}
		if started && depth == 0 {
			// consume rest of line
			s.out.ReadString('\n')
			return b.String()
		}
	}
}

// parsePairs parses "((a v) (b v) ...)" into pairs; values are returned as raw text.
func parsePairs(txt string) [][2]string {
	var out [][2]string
	i := strings.IndexByte(txt, '(')
	if i < 0 {
		return nil
	}
	i++
	n := len(txt)
	for i < n {
		for i < n && (txt[i] == ' ' || txt[i] == '\n' || txt[i] == '\t' || txt[i] == '\r') {
			i++
		}
		if i >= n || txt[i] != '(' {
			break
		}
		i++
		j := i
		for j < n && txt[j] != ' ' && txt[j] != '\n' {
			j++
		}
		name := txt[i:j]
		for j < n && (txt[j] == ' ' || txt[j] == '\n') {
			j++
		}
		// value: balanced expr or atom, up to the closing paren of the pair
		k := j
		depth := 0
		inStr := false
		for k < n {
			c := txt[k]
			if inStr {
				if c == '"' {
					if k+1 < n && txt[k+1] == '"' {
						k++
					} else {
						inStr = false
					}
				}
			} else if c == '"' {
				inStr = true
			} else if c == '(' {
				depth++
			} else if c == ')' {
				if depth == 0 {
					break
				}
				depth--
			}
			k++
		}
		out = append(out, [2]string{name, strings.TrimSpace(txt[j:k])})
		i = k + 1
	}
	return out
}

// parseBV parses "#x.." / "#b.." / "(_ bvN w)" / true / false into bits.
func parseBV(v string) (uint64, bool) {
	v = strings.TrimSpace(v)
	switch {
	case v == "true":
		return 1, true
	case v == "false":
		return 0, true
	case strings.HasPrefix(v, "#x"):
		u, err := strconv.ParseUint(v[2:], 16, 64)
		return u, err == nil
	case strings.HasPrefix(v, "#b"):
		u, err := strconv.ParseUint(v[2:], 2, 64)
		return u, err == nil
	case strings.HasPrefix(v, "(_ bv"):
		f := strings.Fields(v[5:])
		if len(f) > 0 {
			u, err := strconv.ParseUint(f[0], 10, 64)
			return u, err == nil
		}
	}
	return 0, false
}

// parseSMTString decodes an SMT-LIB string literal as printed by the solver.
func parseSMTString(v string) (string, bool) {
	v = strings.TrimSpace(v)
	if len(v) < 2 || v[0] != '"' || v[len(v)-1] != '"' {
		return "", false
	}
	v = v[1 : len(v)-1]
	var b []byte
	for i := 0; i < len(v); i++ {
		c := v[i]
		if c == '"' && i+1 < len(v) && v[i+1] == '"' {
			b = append(b, '"')
			i++
			continue
		}
		if c == '\\' && i+1 < len(v) && v[i+1] == 'u' {
			// \u{X..} or \uXXXX
			if i+2 < len(v) && v[i+2] == '{' {
				j := strings.IndexByte(v[i:], '}')
				if j > 0 {
					u, err := strconv.ParseUint(v[i+3:i+j], 16, 32)
					if err == nil {
						if u < 256 {
							b = append(b, byte(u))
						} else {
							b = append(b, []byte(string(rune(u)))...)
						}
						i += j
						continue
					}
				}
			} else if i+5 < len(v) {
				u, err := strconv.ParseUint(v[i+2:i+6], 16, 32)
				if err == nil {
					if u < 256 {
						b = append(b, byte(u))
					} else {
						b = append(b, []byte(string(rune(u)))...)
					}
					i += 5
					continue
				}
			}
		}
		b = append(b, c)
	}
	return string(b), true
}

// ---------------------------------------------------------------- shared state

type decKind uint8

const (
	dBranch decKind = iota // If / decide on a symbolic condition
	dChoice                // harness Choice(n)
	dValue                 // concretisation of a symbolic integer
)

type decision struct {
	kind    decKind
	b       bool
	v       uint64   // choice index or concrete value
	pending bool     // last element of a queued prefix: alternative still to be determined
	excl    []uint64 // dValue: values already taken by siblings
	n       int      // dChoice: arity
}

func (d decision) String() string {
	switch d.kind {
	case dBranch:
		if d.b {
			return "T"
		}
		return "F"
	case dChoice:
		return fmt.Sprintf("c%d", d.v)
	}
	return fmt.Sprintf("v%d", d.v)
}

type VarInfo struct {
	Name  string `json:"name"`
	Label string `json:"label"`
	Occ   int    `json:"occ"`
	Sort  string `json:"sort"`
	Type  string `json:"type"`
}

type ModelVal struct {
	Label string `json:"label"`
	Occ   int    `json:"occ"`
	Type  string `json:"type"`
	Bits  string `json:"bits,omitempty"` // hex bit pattern for scalars
	Str   string `json:"str,omitempty"`
	IsStr bool   `json:"is_str,omitempty"`
}

type Violation struct {
	Label    string            `json:"label"`
	Concrete bool              `json:"concrete"`
	Path     string            `json:"path"`
	Model    []ModelVal        `json:"model"`
	Choices  []uint64          `json:"choices"`
	Events   []string          `json:"events"`
	Cross    map[string]string `json:"cross,omitempty"`
}

type Witness struct {
	Path    string     `json:"path"`
	Model   []ModelVal `json:"model"`
	Choices []uint64   `json:"choices"`
	Events  []string   `json:"events"`
}

type Config struct {
	Solver          string
	Secondary       []string
	TimeoutMs       int
	MaxPaths        int
	MaxDecisions    int
	MaxInstr        int64
	MaxValues       int // per concretisation site
	Deadline        time.Time
	Workers         int
	Witnesses       int // number of passing-path witnesses to extract
	StopOnViolation int // stop after this many violations per label (0 = unlimited)
	Debug           bool
}

type Shared struct {
	Cfg     Config
	mu      sync.Mutex
	cond    *sync.Cond
	pending [][]decision
	busy    int
	stopped bool

	Paths           int
	PathsByEnd      map[string]int
	EndMsgs         map[string]int
	Asserts         int // property queries sent to the solver
	AssertsConcrete int
	AssertUnsat     int
	AssertSat       int
	AssertUnknown   int
	AssertByLabel   map[string]*LabelStat
	Reach           map[string]int
	Decisions       int
	FeasQueries     int
	UnknownFeas     int
	Violations      []Violation
	violByLabel     map[string]int
	Witnesses       []Witness
	Funcs           map[string]int
	Models          map[string]int // externals / models used
	BoundReduced    map[string]int
	CrossAgree      int
	CrossDisagree   int
	CrossUnknown    int
	SolverTime      time.Duration
	SolverQueries   int
	Instrs          int64
	MaxTrail        int
	Twin            map[string]int // verdict of "path condition satisfiable" at the end of each completed path
}

type LabelStat struct {
	Queries       int `json:"queries"`
	Unsat         int `json:"unsat"`
	Sat           int `json:"sat"`
	Unknown       int `json:"unknown"`
	Concrete      int `json:"concrete_true"`
	ConcreteFalse int `json:"concrete_false"`
}

func NewShared(cfg Config) *Shared {
	sh := &Shared{Cfg: cfg, PathsByEnd: map[string]int{}, EndMsgs: map[string]int{}, AssertByLabel: map[string]*LabelStat{},
		Reach: map[string]int{}, violByLabel: map[string]int{}, Funcs: map[string]int{}, Models: map[string]int{}, BoundReduced: map[string]int{}, Twin: map[string]int{}}
	sh.cond = sync.NewCond(&sh.mu)
	sh.pending = [][]decision{nil}
	return sh
}

func (sh *Shared) push(p []decision) {
	sh.mu.Lock()
	sh.pending = append(sh.pending, p)
	sh.mu.Unlock()
	sh.cond.Signal()
}

// pop blocks until a prefix is available or exploration is complete.
func (sh *Shared) pop() ([]decision, bool) {
	sh.mu.Lock()
	defer sh.mu.Unlock()
	for {
		if sh.stopped {
			return nil, false
		}
		if sh.Cfg.MaxPaths > 0 && sh.Paths+sh.busy >= sh.Cfg.MaxPaths {
			if len(sh.pending) > 0 {
				sh.BoundReduced["max-paths reached with prefixes pending"] = len(sh.pending)
			}
			if sh.busy == 0 {
				sh.stopped = true
				sh.cond.Broadcast()
			} else {
				sh.cond.Wait()
				continue
			}
			return nil, false
		}
		if !sh.Cfg.Deadline.IsZero() && time.Now().After(sh.Cfg.Deadline) {
			if len(sh.pending) > 0 {
				sh.BoundReduced["deadline reached with prefixes pending"] = len(sh.pending)
			}
			sh.stopped = true
			sh.cond.Broadcast()
			return nil, false
		}
		if n := len(sh.pending); n > 0 {
			p := sh.pending[n-1]
			sh.pending = sh.pending[:n-1]
			sh.busy++
			return p, true
		}
		if sh.busy == 0 {
			sh.stopped = true
			sh.cond.Broadcast()
			return nil, false
		}
		sh.cond.Wait()
	}
}

func (sh *Shared) done() {
	sh.mu.Lock()
	sh.busy--
	sh.mu.Unlock()
	sh.cond.Broadcast()
}

// ---------------------------------------------------------------- per-worker explorer

type Explorer struct {
	sh            *Shared
	S             *Solver
	sec           []*Solver
	secPos        []int
	script        []string // permanent commands of the current path
	prefix        []decision
	trail         []decision
	vars          []VarInfo
	pins          []ModelVal              // concrete byte strings the harness pins for native replay (verif.Pin)
	violatedTerms map[string]violatedTerm // condition terms already found violated on this path
	occ           map[string]int
	nterms        int
	nvars         int
	events        []string
	instrs        int64
	funcs         map[string]int
	models        map[string]int
	pathViolated  bool
	uid           int
	terms         map[string]sym
	prefNeg       string
	fp            bool // the path has floating-point terms: one-shot queries
	harnessState
}

func NewExplorer(sh *Shared) (*Explorer, error) {
	s, err := NewSolver(sh.Cfg.Solver, sh.Cfg.TimeoutMs)
	if err != nil {
		return nil, err
	}
	x := &Explorer{sh: sh, S: s, funcs: map[string]int{}, models: map[string]int{}}
	for _, n := range sh.Cfg.Secondary {
		s2, err := NewSolver(n, sh.Cfg.TimeoutMs)
		if err != nil {
			return nil, err
		}
		x.sec = append(x.sec, s2)
		x.secPos = append(x.secPos, 0)
	}
	return x, nil
}

func (x *Explorer) Close() {
	x.S.Close()
	for _, s := range x.sec {
		s.Close()
	}
}

func (x *Explorer) startPath(prefix []decision) {
	x.prefix = prefix
	x.trail = x.trail[:0]
	x.vars = x.vars[:0]
	x.pins = nil
	x.violatedTerms = nil
	x.occ = map[string]int{}
	x.nterms, x.nvars = 0, 0
	x.events = nil
	x.instrs = 0
	x.script = x.script[:0]
	x.pathViolated = false
	x.uid = 0
	x.fp = false
	x.terms = map[string]sym{}
	x.resetHarnessState()
	x.S.send("(reset)")
	for i, s := range x.sec {
		s.send("(reset)")
		x.secPos[i] = 0
	}
}

// perm sends a permanent (path-level) command.
func (x *Explorer) perm(cmd string) {
	if !x.fp && (strings.Contains(cmd, "to_fp") || strings.Contains(cmd, "fp.")) {
		// z3's incremental core is orders of magnitude slower on floating point than its one-shot
		// tactic pipeline (measured here: 2 s / timeouts vs 0.1 s). From the first FP term on, every
		// query of this path is asked one-shot: (reset), replay the path's script, assert, check-sat.
		x.fp = true
	}
	if !x.fp {
		x.S.send(cmd)
	}
	x.script = append(x.script, cmd)
}

// query asks the primary solver for pc AND extra. keep leaves the model readable (popModel() ends that).
func (x *Explorer) query(extra string, keep bool) string {
	if !x.fp {
		return x.S.checkSat(extra, keep)
	}
	s := x.S
	t0 := time.Now()
	s.Queries++
	s.send("(reset)")
	for _, c := range x.script {
		s.send(c)
	}
	if extra != "" {
		s.send("(assert " + extra + ")")
	}
	s.send("(check-sat)")
	r := s.readLine()
	for strings.HasPrefix(r, "(error") {
		nxt := s.readLine()
		if nxt == "sat" || nxt == "unsat" || nxt == "unknown" || s.dead {
			r = "error"
			break
		}
		r = nxt
	}
	if r != "sat" && r != "unsat" && r != "unknown" {
		r = "error"
	}
	d := time.Since(t0)
	s.Time += d
	if slowLogMs > 0 && d > time.Duration(slowLogMs)*time.Millisecond {
		fmt.Fprintf(os.Stderr, "SLOW(one-shot) %s %.1fs %s: %s\n", s.Name, d.Seconds(), r, extra)
	}
	return r
}

func (x *Explorer) popModel() {
	if !x.fp {
		x.S.pop()
	}
}

func (x *Explorer) syncSecondary(i int) {
	s := x.sec[i]
	for _, c := range x.script[x.secPos[i]:] {
		s.send(c)
	}
	x.secPos[i] = len(x.script)
}

func (x *Explorer) fresh(label string, s ssort, typ string) sym {
	x.nvars++
	name := fmt.Sprintf("v%d", x.nvars)
	occ := x.occ[label]
	x.occ[label] = occ + 1
	x.vars = append(x.vars, VarInfo{Name: name, Label: label, Occ: occ, Sort: s.smt(), Type: typ})
	switch s {
	case sF32:
		x.perm("(declare-const " + name + " (_ BitVec 32))")
		return x.mk("((_ to_fp 8 24) "+name+")", sF32)
	case sF64:
		x.perm("(declare-const " + name + " (_ BitVec 64))")
		return x.mk("((_ to_fp 11 53) "+name+")", sF64)
	}
	x.perm("(declare-const " + name + " " + s.smt() + ")")
	return sym{name, s}
}

func (x *Explorer) pathString() string {
	var b strings.Builder
	for _, d := range x.trail {
		b.WriteString(d.String())
	}
	return b.String()
}

func (x *Explorer) nextDecision(kind decKind) (d decision, replay bool) {
	idx := len(x.trail)
	if idx >= x.sh.Cfg.MaxDecisions && x.sh.Cfg.MaxDecisions > 0 {
		panic(pathEnd{kind: endLimit, msg: "decision depth limit"})
	}
	if idx < len(x.prefix) {
		d = x.prefix[idx]
		if d.kind != kind {
			panic(pathEnd{kind: endInfeasible, msg: fmt.Sprintf("replay diverged at decision %d: recorded kind %d, now %d", idx, d.kind, kind)})
		}
		return d, true
	}
	return decision{kind: kind}, false
}

func (x *Explorer) queueAlt(alt decision) {
	p := make([]decision, len(x.trail)+1)
	copy(p, x.trail)
	p[len(x.trail)] = alt
	x.sh.push(p)
}

// decide resolves a branch on a symbolic condition.
func (x *Explorer) decide(c sym, why string) bool {
	d, replay := x.nextDecision(dBranch)
	var b bool
	if replay {
		b = d.b
	} else {
		x.sh.mu.Lock()
		x.sh.FeasQueries++
		x.sh.mu.Unlock()
		rt := x.query(c.e, false)
		switch rt {
		case "unsat":
			b = false
		default:
			if rt != "sat" {
				x.noteUnknownFeas()
			}
			x.sh.mu.Lock()
			x.sh.FeasQueries++
			x.sh.mu.Unlock()
			rf := x.query("(not "+c.e+")", false)
			if rf != "sat" && rf != "unsat" {
				x.noteUnknownFeas()
			}
			if rf == "unsat" {
				if rt != "sat" {
					// neither side could be shown feasible
				}
				b = true
			} else {
				b = true
				x.queueAlt(decision{kind: dBranch, b: false})
			}
		}
	}
	x.trail = append(x.trail, decision{kind: dBranch, b: b})
	if b {
		x.perm("(assert " + c.e + ")")
	} else {
		x.perm("(assert (not " + c.e + "))")
	}
	return b
}

func (x *Explorer) noteUnknownFeas() {
	x.sh.mu.Lock()
	x.sh.UnknownFeas++
	x.sh.mu.Unlock()
}

// choice forks n ways without consulting the solver.
func (x *Explorer) choice(n int, label string) int {
	if n <= 0 {
		panic(unsupported("Choice with n <= 0"))
	}
	d, replay := x.nextDecision(dChoice)
	v := uint64(0)
	if replay {
		v = d.v
	}
	if (!replay || d.pending) && int(v)+1 < n {
		x.queueAlt(decision{kind: dChoice, v: v + 1, pending: true, n: n})
	}
	x.trail = append(x.trail, decision{kind: dChoice, v: v, n: n})
	return int(v)
}

// concretize forks over the feasible values of a symbolic integer (at most MaxValues).
func (x *Explorer) concretize(s sym, why string) uint64 {
	return x.concretizeN(s, why, x.sh.Cfg.MaxValues, false)
}

// concretizeN: at most maxVals values; quiet = an explicit, documented concretisation (no BOUND-REDUCED report).
func (x *Explorer) concretizeN(s sym, why string, maxVals int, quiet bool) uint64 {
	if !s.s.isBV() && s.s != sBool {
		panic(unsupported("concretize non-integer at " + why))
	}
	d, replay := x.nextDecision(dValue)
	var v uint64
	if replay && !d.pending {
		v = d.v
	} else {
		excl := d.excl
		var cs []string
		for _, e := range excl {
			cs = append(cs, "(not (= "+s.e+" "+x.valLit(s, e)+"))")
		}
		extra := ""
		if len(cs) == 1 {
			extra = cs[0]
		} else if len(cs) > 1 {
			extra = "(and " + strings.Join(cs, " ") + ")"
		}
		r := x.query(extra, true)
		if r != "sat" {
			x.popModel()
			if r == "unsat" {
				panic(pathEnd{kind: endExhausted, msg: "no further value"})
			}
			panic(unsupported("solver " + r + " while concretising at " + why))
		}
		vals := x.S.getValues([]string{s.e})
		x.popModel()
		u, ok := parseBV(vals[s.e])
		if !ok {
			panic(unsupported("cannot parse model value " + vals[s.e]))
		}
		v = u
		nx := append(append([]uint64{}, excl...), v)
		// is there one more value? (one query now saves a whole re-execution that would only find "none")
		more := x.query("(and "+strings.Join(append(append([]string{"true"}, cs...), "(not (= "+s.e+" "+x.valLit(s, v)+"))"), " ")+")", false)
		if more != "unsat" {
			if len(nx) < maxVals {
				x.queueAlt(decision{kind: dValue, pending: true, excl: nx})
			} else if !quiet {
				x.boundReduced("more than " + strconv.Itoa(maxVals) + " values at concretisation site: " + why)
			}
		}
	}
	x.trail = append(x.trail, decision{kind: dValue, v: v})
	x.perm("(assert (= " + s.e + " " + x.valLit(s, v) + "))")
	return v
}

func (x *Explorer) valLit(s sym, v uint64) string {
	if s.s == sBool {
		if v != 0 {
			return "true"
		}
		return "false"
	}
	return bvLit(v, s.s.bits())
}

func (x *Explorer) boundReduced(msg string) {
	x.sh.mu.Lock()
	x.sh.BoundReduced[msg]++
	x.sh.mu.Unlock()
}

// assume adds a path constraint; an unsatisfiable one ends the path quietly.
func (x *Explorer) assume(c value) {
	switch c := c.(type) {
	case bool:
		if !c {
			panic(pathEnd{kind: endAssume, msg: "Assume(false)"})
		}
	case sym:
		r := x.query(c.e, false)
		if r == "unsat" {
			panic(pathEnd{kind: endAssume, msg: "assumption unsatisfiable on this path"})
		}
		if r != "sat" {
			x.noteUnknownFeas()
		}
		x.perm("(assert " + c.e + ")")
	default:
		panic(unsupported(fmt.Sprintf("Assume(%T)", c)))
	}
}

func (x *Explorer) labelStat(label string) *LabelStat {
	ls := x.sh.AssertByLabel[label]
	if ls == nil {
		ls = &LabelStat{}
		x.sh.AssertByLabel[label] = ls
	}
	return ls
}

func (x *Explorer) model() []ModelVal {
	if len(x.vars) == 0 {
		if len(x.pins) > 0 {
			return append([]ModelVal{}, x.pins...)
		}
		return nil
	}
	names := make([]string, len(x.vars))
	for i, v := range x.vars {
		names[i] = v.Name
	}
	vals := x.S.getValues(names)
	out := make([]ModelVal, len(x.vars))
	for i, v := range x.vars {
		mv := ModelVal{Label: v.Label, Occ: v.Occ, Type: v.Type}
		raw := vals[v.Name]
		if v.Sort == "String" {
			s, _ := parseSMTString(raw)
			mv.Str, mv.IsStr = s, true
		} else {
			u, ok := parseBV(raw)
			if !ok {
				mv.Bits = "?" + raw
			} else {
				mv.Bits = strconv.FormatUint(u, 16)
			}
		}
		out[i] = mv
	}
	return append(out, x.pins...)
}

// renderedEvents substitutes model values for symbolic event arguments. Needs a model.
func (x *Explorer) renderedEvents() []string {
	var names []string
	seen := map[string]bool{}
	for _, e := range x.events {
		for _, f := range strings.Fields(e) {
			if strings.HasPrefix(f, "$") {
				n := f[1:]
				if k := strings.IndexByte(n, ':'); k >= 0 {
					n = n[:k]
				}
				if !seen[n] {
					seen[n] = true
					names = append(names, n)
				}
			}
		}
	}
	out := append([]string{}, x.events...)
	if len(names) == 0 {
		return out
	}
	vals := x.S.getValues(names)
	for i, e := range out {
		fs := strings.Fields(e)
		for k, f := range fs {
			if strings.HasPrefix(f, "$") {
				n, ty := f[1:], "u64"
				if c := strings.IndexByte(n, ':'); c >= 0 {
					n, ty = n[:c], n[c+1:]
				}
				raw := vals[n]
				u, ok := parseBV(raw)
				switch {
				case !ok:
					fs[k] = "#?" + strings.ReplaceAll(raw, " ", "_")
				case ty[0] == 'b':
					fs[k] = strconv.FormatBool(u != 0)
				case ty[0] == 's':
					bits, _ := strconv.Atoi(ty[1:])
					if bits > 0 && bits < 64 && u&(1<<uint(bits-1)) != 0 {
						u |= ^uint64(0) << uint(bits)
					}
					fs[k] = strconv.FormatInt(int64(u), 10)
				default:
					fs[k] = strconv.FormatUint(u, 10)
				}
			}
		}
		out[i] = strings.Join(fs, " ")
	}
	return out
}

func (x *Explorer) choices() []uint64 {
	var out []uint64
	for _, d := range x.trail {
		if d.kind == dChoice {
			out = append(out, d.v)
		}
	}
	return out
}

// assert discharges one property query: pc ∧ ¬cond.
type violatedTerm struct {
	m  []ModelVal
	ev []string
}

func (x *Explorer) assert(label string, c value) {
	sh := x.sh
	switch c := c.(type) {
	case bool:
		sh.mu.Lock()
		sh.AssertsConcrete++
		ls := x.labelStat(label)
		if c {
			ls.Concrete++
		} else {
			ls.ConcreteFalse++
		}
		sh.mu.Unlock()
		if !c {
			// violated for every value on this (feasible) path: extract a model of the path condition
			r := x.query("", true)
			var m []ModelVal
			var ev []string
			if r == "sat" {
				m = x.model()
				ev = x.renderedEvents()
			}
			x.popModel()
			x.recordViolation(label, true, m, ev, nil)
		}
		return
	case sym:
		// the same condition under another label (one fact claimed for two properties) after it was found violated on this
		// path: the path now continues under the assumption that it holds, so report the alias from the recorded model
		if pv, seen := x.violatedTerms[c.e]; seen {
			sh.mu.Lock()
			sh.Asserts++
			ls := x.labelStat(label)
			ls.Queries++
			ls.Sat++
			sh.AssertSat++
			sh.mu.Unlock()
			x.recordViolation(label, false, pv.m, pv.ev, nil)
			return
		}
		r := ""
		if x.prefNeg != "" {
			// a preferred (more telling) counterexample region, e.g. a size far beyond the bound
			r = x.query("(and (not "+c.e+") "+x.prefNeg+")", true)
			if r != "sat" {
				x.popModel()
				r = ""
			}
			x.prefNeg = ""
		}
		if r == "" {
			r = x.query("(not "+c.e+")", true)
		}
		var m []ModelVal
		var ev []string
		if r == "sat" {
			m = x.model()
			ev = x.renderedEvents()
		}
		x.popModel()
		cross := map[string]string{}
		for i, s2 := range x.sec {
			x.syncSecondary(i)
			r2 := s2.checkSat("(not "+c.e+")", false)
			cross[s2.Name] = r2
		}
		sh.mu.Lock()
		sh.Asserts++
		ls := x.labelStat(label)
		ls.Queries++
		switch r {
		case "unsat":
			sh.AssertUnsat++
			ls.Unsat++
		case "sat":
			sh.AssertSat++
			ls.Sat++
		default:
			sh.AssertUnknown++
			ls.Unknown++
		}
		for _, r2 := range cross {
			switch {
			case r2 != "sat" && r2 != "unsat":
				sh.CrossUnknown++
			case r == r2:
				sh.CrossAgree++
			case r == "sat" || r == "unsat":
				sh.CrossDisagree++
			default:
				sh.CrossUnknown++
			}
		}
		sh.mu.Unlock()
		if r == "sat" {
			if x.violatedTerms == nil {
				x.violatedTerms = map[string]violatedTerm{}
			}
			x.violatedTerms[c.e] = violatedTerm{m: m, ev: ev}
			x.recordViolation(label, false, m, ev, cross)
			// continue under the assumption that the assertion holds where that is possible (so that independent
			// violations further on are found too); when it fails on the whole path, continue unconstrained
			if x.query(c.e, false) != "unsat" {
				x.perm("(assert " + c.e + ")")
			}
		}
	default:
		panic(unsupported(fmt.Sprintf("Assert(%T)", c)))
	}
}

func (x *Explorer) recordViolation(label string, concrete bool, m []ModelVal, ev []string, cross map[string]string) {
	x.pathViolated = true
	sh := x.sh
	sh.mu.Lock()
	defer sh.mu.Unlock()
	sh.violByLabel[label]++
	if sh.violByLabel[label] > 5 {
		return // keep at most five counterexamples per assertion label
	}
	sh.Violations = append(sh.Violations, Violation{Label: label, Concrete: concrete, Path: x.pathString(), Model: m,
		Choices: x.choices(), Events: ev, Cross: cross})
}

func (sh *Shared) ViolationCount(label string) int { return sh.violByLabel[label] }
func (sh *Shared) ViolationLabels() []string {
	var out []string
	for k := range sh.violByLabel {
		out = append(out, k)
	}
	sort.Strings(out)
	return out
}

func (x *Explorer) reach(label string) {
	x.sh.mu.Lock()
	x.sh.Reach[label]++
	x.sh.mu.Unlock()
}

// endPath merges per-path statistics and optionally extracts a witness.
func (x *Explorer) endPath(end string, msg string) {
	sh := x.sh
	var w *Witness
	if end == "ok" && !x.pathViolated {
		sh.mu.Lock()
		need := len(sh.Witnesses) < sh.Cfg.Witnesses
		sh.mu.Unlock()
		if need {
			r := x.query("", true)
			if r == "sat" {
				w = &Witness{Path: x.pathString(), Model: x.model(), Choices: x.choices(), Events: x.renderedEvents()}
			}
			x.popModel()
		}
	}
	twin := ""
	if end == "ok" {
		if len(x.vars) == 0 {
			twin = "sat"
		} else {
			twin = x.query("", false)
		}
	}
	sh.mu.Lock()
	if twin != "" {
		sh.Twin[twin]++
	}
	sh.Paths++
	sh.PathsByEnd[end]++
	if msg != "" && end != "ok" {
		if len(msg) > 1600 {
			msg = msg[:1600]
		}
		sh.EndMsgs[end+": "+msg]++
	}
	sh.Decisions += len(x.trail)
	if len(x.trail) > sh.MaxTrail {
		sh.MaxTrail = len(x.trail)
	}
	sh.Instrs += x.instrs
	for k, v := range x.funcs {
		sh.Funcs[k] += v
	}
	for k, v := range x.models {
		sh.Models[k] += v
	}
	if w != nil && len(sh.Witnesses) < sh.Cfg.Witnesses {
		sh.Witnesses = append(sh.Witnesses, *w)
	}
	sh.mu.Unlock()
	x.funcs = map[string]int{}
	x.models = map[string]int{}
}

func (x *Explorer) finish() {
	sh := x.sh
	sh.mu.Lock()
	sh.SolverTime += x.S.Time
	sh.SolverQueries += x.S.Queries
	for _, s := range x.sec {
		sh.SolverTime += s.Time
		sh.SolverQueries += s.Queries
	}
	sh.mu.Unlock()
}

func debugf(format string, args ...any) {
	if os.Getenv("GOSYM_DEBUG") != "" {
		fmt.Fprintf(os.Stderr, format+"\n", args...)
	}
}
