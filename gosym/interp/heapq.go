package interp

// Heap queries for the isolation / interference-freedom harnesses (C09):
// footprints (read / write sets of executor heap cells), reachability, sharing, graph isomorphism.

import (
	"fmt"
	"go/types"
	"strings"
)

// ---------------------------------------------------------------- footprints

type footprint struct {
	cells map[*value]uint8 // bit0 = read, bit1 = written
	maps  map[*omap]uint8
}

func newFootprint() *footprint {
	return &footprint{cells: map[*value]uint8{}, maps: map[*omap]uint8{}}
}

func (x *Explorer) noteRead(a *value) {
	if x.fpCur != nil && a != nil {
		x.fpCur.cells[a] |= 1
	}
}

func (x *Explorer) noteWrite(a *value) {
	if x.fpCur != nil && a != nil {
		x.fpCur.cells[a] |= 2
	}
}

func (x *Explorer) noteMap(m *omap, bit uint8) {
	if x.fpCur != nil && m != nil {
		x.fpCur.maps[m] |= bit
	}
}

// leafCells lists the addresses of the scalar leaves of the aggregate stored at a (a itself for scalars).
func leafCells(a *value, out *[]*value) {
	if a == nil {
		return
	}
	switch v := (*a).(type) {
	case structure:
		for i := range v {
			leafCells(&v[i], out)
		}
	case array:
		for i := range v {
			leafCells(&v[i], out)
		}
	default:
		*out = append(*out, a)
	}
}

func (x *Explorer) noteAccess(a *value, write bool) {
	if x.fpCur == nil || a == nil {
		return
	}
	var ls []*value
	leafCells(a, &ls)
	for _, l := range ls {
		if write {
			x.fpCur.cells[l] |= 2
		} else {
			x.fpCur.cells[l] |= 1
		}
	}
}

// ---------------------------------------------------------------- reachability

type reachSet struct {
	cells map[*value]bool
	maps  map[*omap]bool
}

func reach(v value, rs *reachSet, depth int) {
	if depth > 10000 {
		return
	}
	switch v := v.(type) {
	case *value:
		if v == nil || rs.cells[v] {
			return
		}
		rs.cells[v] = true
		var ls []*value
		leafCells(v, &ls)
		for _, l := range ls {
			rs.cells[l] = true
			reach(*l, rs, depth+1)
		}
	case structure:
		for i := range v {
			reach(v[i], rs, depth+1)
		}
	case array:
		for i := range v {
			reach(v[i], rs, depth+1)
		}
	case []value:
		for i := range v {
			if !rs.cells[&v[i]] {
				rs.cells[&v[i]] = true
				reach(v[i], rs, depth+1)
			}
		}
	case *omap:
		if v == nil || rs.maps[v] {
			return
		}
		rs.maps[v] = true
		for i := range v.ents {
			if v.ents[i].live {
				reach(v.ents[i].k, rs, depth+1)
				reach(v.ents[i].v, rs, depth+1)
			}
		}
	case iface:
		reach(v.v, rs, depth+1)
	case *closure:
		if v != nil {
			for _, e := range v.Env {
				reach(e, rs, depth+1)
			}
		}
	case rmethod:
		reach(v.recv, rs, depth+1)
	}
}

func reachOf(vs ...value) *reachSet {
	rs := &reachSet{cells: map[*value]bool{}, maps: map[*omap]bool{}}
	for _, v := range vs {
		reach(v, rs, 0)
	}
	return rs
}

// ---------------------------------------------------------------- isomorphism

type isoState struct {
	fwd     map[*value]*value
	bwd     map[*value]*value
	mfwd    map[*omap]*omap
	skip    map[string]bool // "Field" or "Type.Field": not traversed at all
	scalars map[string]bool // "Field" or "Type.Field": scalar fields that are compared; others are ignored (nil map = all)
	why     string
	steps   int
}

func isScalarType(t types.Type) bool {
	if isReflectValue(t) {
		return true
	}
	_, ok := t.Underlying().(*types.Basic)
	return ok
}

func typeShortName(t types.Type) string {
	if n, ok := t.(*types.Named); ok {
		return n.Obj().Name()
	}
	return ""
}

func (s *isoState) fail(path, msg string) bool {
	if s.why == "" {
		s.why = path + ": " + msg
	}
	return false
}

func (s *isoState) iso(t types.Type, a, b value, path string) bool {
	s.steps++
	if s.steps > 2000000 {
		return s.fail(path, "too large")
	}
	if isReflectValue(t) {
		ta, tb := rV2T(a).t, rV2T(b).t
		if (ta == nil) != (tb == nil) {
			return s.fail(path, "reflect.Value validity differs")
		}
		if ta == nil {
			return true
		}
		if !types.Identical(ta, tb) {
			return s.fail(path, "reflect.Value types differ")
		}
		return s.iso(ta, rV2V(a), rV2V(b), path+".(rv)")
	}
	switch u := t.Underlying().(type) {
	case *types.Basic:
		if containsSym(a) || containsSym(b) {
			return true // symbolic payloads are compared by the harness itself
		}
		if u.Kind() == types.String {
			if a.(string) != b.(string) {
				return s.fail(path, fmt.Sprintf("strings differ: %q vs %q", a, b))
			}
			return true
		}
		if u.Kind() == types.UnsafePointer {
			return true
		}
		if !equals(t, a, b) {
			return s.fail(path, fmt.Sprintf("scalars differ: %v vs %v", a, b))
		}
		return true
	case *types.Pointer:
		pa, pb := a.(*value), b.(*value)
		if (pa == nil) != (pb == nil) {
			return s.fail(path, "nil-ness differs")
		}
		if pa == nil {
			return true
		}
		if q, ok := s.fwd[pa]; ok {
			if q != pb {
				return s.fail(path, "sharing differs (node shared on one side only)")
			}
			return true
		}
		if q, ok := s.bwd[pb]; ok && q != pa {
			return s.fail(path, "sharing differs (node shared on one side only)")
		}
		s.fwd[pa], s.bwd[pb] = pb, pa
		return s.iso(u.Elem(), *pa, *pb, path)
	case *types.Struct:
		sa, sb := a.(structure), b.(structure)
		tn := typeShortName(t)
		for i := 0; i < u.NumFields(); i++ {
			f := u.Field(i)
			if s.skip[f.Name()] || s.skip[tn+"."+f.Name()] {
				continue
			}
			if s.scalars != nil && isScalarType(f.Type()) && !s.scalars[f.Name()] && !s.scalars[tn+"."+f.Name()] {
				continue // bookkeeping scalar (not declared meaning-bearing): ignored
			}
			if !s.iso(f.Type(), sa[i], sb[i], path+"."+f.Name()) {
				return false
			}
		}
		return true
	case *types.Slice:
		sa, sb := a.([]value), b.([]value)
		if len(sa) != len(sb) {
			return s.fail(path, fmt.Sprintf("lengths differ %d vs %d", len(sa), len(sb)))
		}
		for i := range sa {
			if !s.iso(u.Elem(), sa[i], sb[i], fmt.Sprintf("%s[%d]", path, i)) {
				return false
			}
		}
		return true
	case *types.Array:
		sa, sb := a.(array), b.(array)
		for i := range sa {
			if !s.iso(u.Elem(), sa[i], sb[i], fmt.Sprintf("%s[%d]", path, i)) {
				return false
			}
		}
		return true
	case *types.Map:
		ma, mb := a.(*omap), b.(*omap)
		if (ma == nil) != (mb == nil) {
			return s.fail(path, "map nil-ness differs")
		}
		if ma == nil {
			return true
		}
		if q, ok := s.mfwd[ma]; ok {
			if q != mb {
				return s.fail(path, "map sharing differs")
			}
			return true
		}
		s.mfwd[ma] = mb
		if ma.len() != mb.len() {
			return s.fail(path, fmt.Sprintf("map sizes differ %d vs %d", ma.len(), mb.len()))
		}
		_, ptrKey := u.Key().Underlying().(*types.Pointer)
		for _, k := range ma.keys() {
			va, _ := ma.get(k)
			kb := k
			if ptrKey {
				q, ok := s.fwd[k.(*value)]
				if !ok {
					return s.fail(path, "map keyed by a node that is not reachable from the rule entries")
				}
				kb = q
			}
			vb, ok := mb.get(kb)
			if !ok {
				return s.fail(path, "map key missing on one side: "+toString(k))
			}
			if !s.iso(u.Elem(), va, vb, path+"["+toString(k)+"]") {
				return false
			}
		}
		return true
	case *types.Interface:
		ia, ib := a.(iface), b.(iface)
		if !sameType(ia.t, ib.t) {
			return s.fail(path, "dynamic types differ")
		}
		if ia.t == nil {
			return true
		}
		return s.iso(ia.t, ia.v, ib.v, path)
	case *types.Signature, *types.Chan:
		return true
	}
	return s.fail(path, "unsupported type "+t.String())
}

// ---------------------------------------------------------------- intercepts

var heapFns = map[string]externalFn{
	// FootprintBegin(tag): start logging reads/writes of heap cells under tag (nesting not supported)
	"FootprintBegin": func(fr *frame, args []value) value {
		x := fr.i.x
		fp := newFootprint()
		x.fps[args[0].(string)] = fp
		x.fpCur = fp
		return nil
	},
	"FootprintEnd": func(fr *frame, args []value) value {
		fr.i.x.fpCur = nil
		return nil
	},
	// FootprintConflicts(a, b): number of cells written in a and read or written in b (plus maps)
	"FootprintConflicts": func(fr *frame, args []value) value {
		x := fr.i.x
		a, b := x.fps[args[0].(string)], x.fps[args[1].(string)]
		if a == nil || b == nil {
			panic(unsupported("FootprintConflicts: unknown footprint"))
		}
		n := 0
		for c, m := range a.cells {
			if m&2 != 0 && b.cells[c] != 0 {
				n++
			}
		}
		for c, m := range a.maps {
			if m&2 != 0 && b.maps[c] != 0 {
				n++
			}
		}
		return n
	},
	// FootprintWritesInto(tag, roots...): number of cells written under tag that are reachable from roots
	"FootprintWritesInto": func(fr *frame, args []value) value {
		x := fr.i.x
		a := x.fps[args[0].(string)]
		if a == nil {
			panic(unsupported("FootprintWritesInto: unknown footprint"))
		}
		var roots []value
		for _, r := range args[1].([]value) {
			roots = append(roots, r.(iface).v)
		}
		rs := reachOf(roots...)
		n := 0
		for c, m := range a.cells {
			if m&2 != 0 && rs.cells[c] {
				n++
			}
		}
		for c, m := range a.maps {
			if m&2 != 0 && rs.maps[c] {
				n++
			}
		}
		return n
	},
	// FootprintTouches(tag, roots...): number of cells read OR written under tag that are reachable from roots
	"FootprintTouches": func(fr *frame, args []value) value {
		x := fr.i.x
		a := x.fps[args[0].(string)]
		if a == nil {
			panic(unsupported("FootprintTouches: unknown footprint"))
		}
		var roots []value
		for _, r := range args[1].([]value) {
			roots = append(roots, r.(iface).v)
		}
		rs := reachOf(roots...)
		n := 0
		for c := range a.cells {
			if rs.cells[c] {
				n++
			}
		}
		for c := range a.maps {
			if rs.maps[c] {
				n++
			}
		}
		return n
	},
	// FootprintWritesGlobals(tag): number of written cells that belong to package-level variables of the code under test
	"FootprintWritesGlobals": func(fr *frame, args []value) value {
		x := fr.i.x
		a := x.fps[args[0].(string)]
		if a == nil {
			panic(unsupported("FootprintWritesGlobals: unknown footprint"))
		}
		gl := map[*value]bool{}
		for g, cell := range fr.i.globals {
			if g.Pkg == nil || !strings.HasPrefix(g.Pkg.Pkg.Path(), fr.i.prep.Mod) || strings.Contains(g.Pkg.Pkg.Path(), "/zz") {
				continue
			}
			var ls []*value
			leafCells(cell, &ls)
			for _, l := range ls {
				gl[l] = true
			}
		}
		n := 0
		for c, m := range a.cells {
			if m&2 != 0 && gl[c] {
				n++
			}
		}
		return n
	},
	"FootprintSize": func(fr *frame, args []value) value {
		a := fr.i.x.fps[args[0].(string)]
		if a == nil {
			return 0
		}
		return len(a.cells) + len(a.maps)
	},
	// SharedCells(a, b): number of mutable heap cells reachable from both
	"SharedCells": func(fr *frame, args []value) value {
		ra, rb := reachOf(args[0].(iface).v), reachOf(args[1].(iface).v)
		n := 0
		for c := range ra.cells {
			if rb.cells[c] {
				n++
			}
		}
		for c := range ra.maps {
			if rb.maps[c] {
				n++
			}
		}
		return n
	},
	// Isomorphic(a, b, skipFields): graph isomorphism incl. sharing, ignoring the named struct fields
	"Isomorphic": func(fr *frame, args []value) value {
		a, b := args[0].(iface), args[1].(iface)
		if !sameType(a.t, b.t) || a.t == nil {
			return "types differ"
		}
		s := &isoState{fwd: map[*value]*value{}, bwd: map[*value]*value{}, mfwd: map[*omap]*omap{}, skip: map[string]bool{}}
		// spec: "skip:A,B.C|scalars:X,Y.Z"  (a bare list means skip)
		for _, part := range strings.Split(args[2].(string), "|") {
			kind, list := "skip", part
			if i := strings.Index(part, ":"); i >= 0 {
				kind, list = part[:i], part[i+1:]
			}
			for _, f := range strings.Split(list, ",") {
				if f == "" {
					continue
				}
				if kind == "scalars" {
					if s.scalars == nil {
						s.scalars = map[string]bool{}
					}
					s.scalars[f] = true
				} else {
					s.skip[f] = true
				}
			}
		}
		if s.iso(a.t, a.v, b.v, "") {
			return ""
		}
		return s.why
	},
}
