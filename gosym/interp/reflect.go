// Copyright 2013 The Go Authors. All rights reserved.
// Use of this source code is governed by a BSD-style
// license that can be found in the LICENSE file.

package interp

// Emulated "reflect" package over the executor's heap.
//
// gosym rewrites the stock model: a reflect.Value is
//     structure{ rtype{t}, v, addr *value, flags int }
// where addr != nil makes the Value a *handle* on a heap cell (addressable:
// obtained through Elem of a pointer, Field of an addressable struct, Index of a
// slice): accessors read the cell at call time and Set* write it. Kind checks,
// settability checks and assignability checks panic like the real package,
// because the code under test relies on recovering from them.

import (
	"fmt"
	"go/token"
	"go/types"
	"reflect"
	"sort"
	"unsafe"

	"golang.org/x/tools/go/ssa"
)

type opaqueType struct {
	types.Type
	name string
}

func (t *opaqueType) String() string { return t.name }

// A bogus "reflect" type-checker package.  Shared across interpreters.
var reflectTypesPackage = types.NewPackage("reflect", "reflect")

// rtype is the concrete type the interpreter uses to implement the
// reflect.Type interface.
var rtypeType = makeNamedType("rtype", &opaqueType{nil, "rtype"})

// error is an (interpreted) named type whose underlying type is string.
var errorType = makeNamedType("error", &opaqueType{nil, "error"})

func makeNamedType(name string, underlying types.Type) *types.Named {
	obj := types.NewTypeName(token.NoPos, reflectTypesPackage, name, nil)
	return types.NewNamed(obj, underlying, nil)
}

const (
	rvRO = 1 << iota // obtained through an unexported field
)

// rmethod is the payload of a reflect.Value of Kind Func obtained by Method/MethodByName.
type rmethod struct {
	fn   *ssa.Function
	recv value
}

func isReflectValue(t types.Type) bool {
	n, ok := t.(*types.Named)
	return ok && n.Obj().Pkg() != nil && n.Obj().Pkg().Path() == "reflect" && n.Obj().Name() == "Value"
}

func makeReflectValue(t types.Type, v value) value {
	if t == nil {
		return structure{rtype{nil}, nil, (*value)(nil), 0}
	}
	return structure{rtype{t}, v, (*value)(nil), 0}
}

func makeReflectHandle(t types.Type, addr *value, flags int) value {
	return structure{rtype{t}, nil, addr, flags}
}

func invalidValue() value { return structure{rtype{nil}, nil, (*value)(nil), 0} }

func rV2T(v value) rtype { return v.(structure)[0].(rtype) }

func rVAddr(v value) *value {
	a, _ := v.(structure)[2].(*value)
	return a
}

func rVFlags(v value) int {
	f, _ := v.(structure)[3].(int)
	return f
}

// rV2V returns the current payload of a reflect.Value (no copy).
func rV2V(v value) value {
	if a := rVAddr(v); a != nil {
		return *a
	}
	return v.(structure)[1]
}

func copyOf(t types.Type, v value) value {
	c := v
	return load(t, &c)
}

func makeReflectType(rt rtype) value { return iface{rtypeType, rt} }

func kindName(t types.Type) string {
	if t == nil {
		return "invalid"
	}
	return reflectKind(t).String()
}

func valueErr(method string, t types.Type) string {
	return "reflect: call of " + method + " on " + kindName(t) + " Value"
}

func mustValid(method string, v value) types.Type {
	t := rV2T(v).t
	if t == nil {
		panic("reflect: call of " + method + " on zero Value")
	}
	return t
}

// ---------------------------------------------------------------- reflect.Type

func ext۰reflect۰rtype۰Bits(fr *frame, args []value) value {
	rt := args[0].(rtype).t
	basic, ok := rt.Underlying().(*types.Basic)
	if !ok {
		panic(fmt.Sprintf("reflect.Type.Bits(%T): non-basic type", rt))
	}
	return int(fr.i.sizes.Sizeof(basic)) * 8
}

func ext۰reflect۰rtype۰Elem(fr *frame, args []value) value {
	e, ok := args[0].(rtype).t.Underlying().(interface{ Elem() types.Type })
	if !ok {
		panic("reflect: Elem of invalid type " + args[0].(rtype).t.String())
	}
	return makeReflectType(rtype{e.Elem()})
}

func ext۰reflect۰rtype۰Key(fr *frame, args []value) value {
	m, ok := args[0].(rtype).t.Underlying().(*types.Map)
	if !ok {
		panic("reflect: Key of non-map type " + args[0].(rtype).t.String())
	}
	return makeReflectType(rtype{m.Key()})
}

func structFieldValue(st *types.Struct, i int) value {
	f := st.Field(i)
	pkgPath := ""
	if !f.Exported() && f.Pkg() != nil {
		pkgPath = f.Pkg().Path()
	}
	return structure{
		f.Name(),
		pkgPath,
		makeReflectType(rtype{f.Type()}),
		st.Tag(i),
		uintptr(0),
		[]value{i},
		f.Anonymous(),
	}
}

func ext۰reflect۰rtype۰Field(fr *frame, args []value) value {
	st, ok := args[0].(rtype).t.Underlying().(*types.Struct)
	if !ok {
		panic("reflect: Field of non-struct type " + args[0].(rtype).t.String())
	}
	i := args[1].(int)
	if i < 0 || i >= st.NumFields() {
		panic("reflect: Field index out of bounds")
	}
	return structFieldValue(st, i)
}

// FieldByName on a type: the field found by Go's promotion rules, with its full index path.
func ext۰reflect۰rtype۰FieldByName(fr *frame, args []value) value {
	t := args[0].(rtype).t
	if _, ok := t.Underlying().(*types.Struct); !ok {
		panic("reflect: FieldByName of non-struct type " + t.String())
	}
	name := args[1].(string)
	obj, index, _ := types.LookupFieldOrMethod(t, true, nil, name)
	if v, isVar := obj.(*types.Var); !isVar || v == nil || len(index) == 0 {
		var zeroSF value
		if m := fr.i.reflectPackage.Type("StructField"); m != nil {
			zeroSF = zero(m.Type())
		}
		return tuple{zeroSF, false}
	}
	cur := t
	var sf value
	for k, i := range index {
		if p, ok := cur.Underlying().(*types.Pointer); ok {
			cur = p.Elem()
		}
		st := cur.Underlying().(*types.Struct)
		if k == len(index)-1 {
			sf = structFieldValue(st, i)
		}
		cur = st.Field(i).Type()
	}
	sfs := sf.(structure)
	idx := make([]value, len(index))
	for k, i := range index {
		idx[k] = i
	}
	sfs[5] = idx
	return tuple{sfs, true}
}

func sigOf(t types.Type) *types.Signature {
	s, ok := t.Underlying().(*types.Signature)
	if !ok {
		panic("reflect: not a func type: " + t.String())
	}
	return s
}

func ext۰reflect۰rtype۰In(fr *frame, args []value) value {
	return makeReflectType(rtype{sigOf(args[0].(rtype).t).Params().At(args[1].(int)).Type()})
}

func ext۰reflect۰rtype۰Kind(fr *frame, args []value) value {
	return uint(reflectKind(args[0].(rtype).t))
}

func ext۰reflect۰rtype۰NumField(fr *frame, args []value) value {
	st, ok := args[0].(rtype).t.Underlying().(*types.Struct)
	if !ok {
		panic("reflect: NumField of non-struct type " + args[0].(rtype).t.String())
	}
	return st.NumFields()
}

func ext۰reflect۰rtype۰NumIn(fr *frame, args []value) value {
	return sigOf(args[0].(rtype).t).Params().Len()
}

func ext۰reflect۰rtype۰IsVariadic(fr *frame, args []value) value {
	return sigOf(args[0].(rtype).t).Variadic()
}

// exportedMethods lists the exported methods of t sorted by name (reflect's order).
func exportedMethods(prog *ssa.Program, t types.Type) []*types.Selection {
	ms := prog.MethodSets.MethodSet(t)
	var out []*types.Selection
	for i := 0; i < ms.Len(); i++ {
		if ms.At(i).Obj().Exported() {
			out = append(out, ms.At(i))
		}
	}
	sort.Slice(out, func(a, b int) bool { return out[a].Obj().Name() < out[b].Obj().Name() })
	return out
}

func ext۰reflect۰rtype۰NumMethod(fr *frame, args []value) value {
	return len(exportedMethods(fr.i.prog, args[0].(rtype).t))
}

// methodFuncType is the type of a method expression T.m: the receiver becomes the first parameter.
func methodFuncType(recv types.Type, sig *types.Signature) *types.Signature {
	ps := []*types.Var{types.NewParam(token.NoPos, nil, "", recv)}
	for i := 0; i < sig.Params().Len(); i++ {
		ps = append(ps, sig.Params().At(i))
	}
	return types.NewSignatureType(nil, nil, nil, types.NewTuple(ps...), sig.Results(), sig.Variadic())
}

func methodStruct(fr *frame, recv types.Type, sel *types.Selection, index int) value {
	sig := sel.Type().(*types.Signature)
	ft := methodFuncType(recv, sig)
	fn := fr.i.prog.MethodValue(sel)
	// struct Method { Name, PkgPath string; Type Type; Func Value; Index int }
	return structure{
		sel.Obj().Name(),
		"",
		makeReflectType(rtype{ft}),
		makeReflectValue(ft, fn),
		index,
	}
}

func ext۰reflect۰rtype۰Method(fr *frame, args []value) value {
	t := args[0].(rtype).t
	ms := exportedMethods(fr.i.prog, t)
	i := args[1].(int)
	if i < 0 || i >= len(ms) {
		panic("reflect: Method index out of range")
	}
	return methodStruct(fr, t, ms[i], i)
}

func ext۰reflect۰rtype۰MethodByName(fr *frame, args []value) value {
	t := args[0].(rtype).t
	name := args[1].(string)
	for i, sel := range exportedMethods(fr.i.prog, t) {
		if sel.Obj().Name() == name {
			return tuple{methodStruct(fr, t, sel, i), true}
		}
	}
	mt := fr.i.prog.ImportedPackage("reflect").Pkg.Scope().Lookup("Method").Type()
	return tuple{zero(mt), false}
}

func ext۰reflect۰rtype۰NumOut(fr *frame, args []value) value {
	return sigOf(args[0].(rtype).t).Results().Len()
}

func ext۰reflect۰rtype۰Out(fr *frame, args []value) value {
	return makeReflectType(rtype{sigOf(args[0].(rtype).t).Results().At(args[1].(int)).Type()})
}

func ext۰reflect۰rtype۰Size(fr *frame, args []value) value {
	return uintptr(fr.i.sizes.Sizeof(args[0].(rtype).t))
}

func typeString(t types.Type) string {
	return types.TypeString(t, func(p *types.Package) string { return p.Name() })
}

func ext۰reflect۰rtype۰String(fr *frame, args []value) value {
	return typeString(args[0].(rtype).t)
}

func ext۰reflect۰rtype۰Name(fr *frame, args []value) value {
	switch t := args[0].(rtype).t.(type) {
	case *types.Named:
		return t.Obj().Name()
	case *types.Basic:
		return t.Name()
	}
	return ""
}

func ext۰reflect۰rtype۰PkgPath(fr *frame, args []value) value {
	if t, ok := args[0].(rtype).t.(*types.Named); ok && t.Obj().Pkg() != nil {
		return t.Obj().Pkg().Path()
	}
	return ""
}

func ext۰reflect۰rtype۰AssignableTo(fr *frame, args []value) value {
	return types.AssignableTo(args[0].(rtype).t, args[1].(iface).v.(rtype).t)
}

func ext۰reflect۰rtype۰ConvertibleTo(fr *frame, args []value) value {
	return types.ConvertibleTo(args[0].(rtype).t, args[1].(iface).v.(rtype).t)
}

func ext۰reflect۰rtype۰Implements(fr *frame, args []value) value {
	it, ok := args[1].(iface).v.(rtype).t.Underlying().(*types.Interface)
	if !ok {
		panic("reflect: non-interface type passed to Type.Implements")
	}
	return types.Implements(args[0].(rtype).t, it)
}

func ext۰reflect۰rtype۰Comparable(fr *frame, args []value) value {
	return types.Comparable(args[0].(rtype).t)
}

func ext۰reflect۰rtype۰Len(fr *frame, args []value) value {
	a, ok := args[0].(rtype).t.Underlying().(*types.Array)
	if !ok {
		panic("reflect: Len of non-array type")
	}
	return int(a.Len())
}

// ---------------------------------------------------------------- constructors

func ext۰reflect۰New(fr *frame, args []value) value {
	t := args[0].(iface).v.(rtype).t
	alloc := zero(t)
	return makeReflectValue(types.NewPointer(t), &alloc)
}

func ext۰reflect۰SliceOf(fr *frame, args []value) value {
	return makeReflectType(rtype{types.NewSlice(args[0].(iface).v.(rtype).t)})
}

func ext۰reflect۰TypeOf(fr *frame, args []value) value {
	t := args[0].(iface).t
	if t == nil {
		return iface{}
	}
	return makeReflectType(rtype{t})
}

func ext۰reflect۰ValueOf(fr *frame, args []value) value {
	itf := args[0].(iface)
	if itf.t == nil {
		return invalidValue()
	}
	return makeReflectValue(itf.t, itf.v)
}

func ext۰reflect۰Zero(fr *frame, args []value) value {
	t := args[0].(iface).v.(rtype).t
	return makeReflectValue(t, zero(t))
}

func ext۰reflect۰Append(fr *frame, args []value) value {
	// func Append(s Value, x ...Value) Value
	t := mustValid("reflect.Append", args[0])
	st, ok := t.Underlying().(*types.Slice)
	if !ok {
		panic(valueErr("reflect.Append", t))
	}
	s := append([]value{}, rV2V(args[0]).([]value)...)
	for _, xv := range args[1].([]value) {
		xt := mustValid("reflect.Append", xv)
		if !types.AssignableTo(xt, st.Elem()) {
			panic("reflect.Append: value of type " + typeString(xt) + " is not assignable to type " + typeString(st.Elem()))
		}
		s = append(s, assignConv(st.Elem(), xt, copyOf(xt, rV2V(xv))))
	}
	return makeReflectValue(t, s)
}

func ext۰reflect۰DeepEqual(fr *frame, args []value) value {
	a, b := args[0].(iface), args[1].(iface)
	return deepEqual(fr, a, b, 0)
}

func deepEqual(fr *frame, a, b value, depth int) value {
	if depth > 50 {
		panic(unsupported("reflect.DeepEqual: too deep"))
	}
	xp := fr.i.x
	switch a := a.(type) {
	case iface:
		bi, ok := b.(iface)
		if !ok {
			return false
		}
		if !sameType(a.t, bi.t) {
			return false
		}
		if a.t == nil {
			return true
		}
		return deepEqualT(fr, a.t, a.v, bi.v, depth+1)
	}
	_ = xp
	panic(unsupported(fmt.Sprintf("reflect.DeepEqual on %T", a)))
}

func deepEqualT(fr *frame, t types.Type, a, b value, depth int) value {
	xp := fr.i.x
	switch u := t.Underlying().(type) {
	case *types.Basic:
		if isSym(a) || isSym(b) {
			return xp.symBinop(token.EQL, t, t, a, b)
		}
		return equals(t, a, b)
	case *types.Pointer:
		pa, pb := a.(*value), b.(*value)
		if pa == pb {
			return true
		}
		if pa == nil || pb == nil {
			return false
		}
		return deepEqualT(fr, u.Elem(), *pa, *pb, depth+1)
	case *types.Struct:
		var r value = true
		sa, sb := a.(structure), b.(structure)
		for i := 0; i < u.NumFields(); i++ {
			r = xp.and(r, deepEqualT(fr, u.Field(i).Type(), sa[i], sb[i], depth+1))
		}
		return r
	case *types.Slice:
		sa, sb := a.([]value), b.([]value)
		if (sa == nil) != (sb == nil) || len(sa) != len(sb) {
			return false
		}
		var r value = true
		for i := range sa {
			r = xp.and(r, deepEqualT(fr, u.Elem(), sa[i], sb[i], depth+1))
		}
		return r
	case *types.Array:
		sa, sb := a.(array), b.(array)
		var r value = true
		for i := range sa {
			r = xp.and(r, deepEqualT(fr, u.Elem(), sa[i], sb[i], depth+1))
		}
		return r
	case *types.Interface:
		return deepEqual(fr, a, b, depth+1)
	case *types.Map:
		ma, mb := a.(*omap), b.(*omap)
		if (ma == nil) != (mb == nil) || ma.len() != mb.len() {
			return false
		}
		var r value = true
		for _, k := range ma.keys() {
			va, _ := ma.get(k)
			vb, ok := mb.get(k)
			if !ok {
				return false
			}
			r = xp.and(r, deepEqualT(fr, u.Elem(), va, vb, depth+1))
		}
		return r
	}
	panic(unsupported("reflect.DeepEqual on " + t.String()))
}

func reflectKind(t types.Type) reflect.Kind {
	switch t := t.(type) {
	case nil:
		return reflect.Invalid
	case *types.Named, *types.Alias:
		return reflectKind(t.Underlying())
	case *types.Basic:
		switch t.Kind() {
		case types.Bool:
			return reflect.Bool
		case types.Int:
			return reflect.Int
		case types.Int8:
			return reflect.Int8
		case types.Int16:
			return reflect.Int16
		case types.Int32:
			return reflect.Int32
		case types.Int64:
			return reflect.Int64
		case types.Uint:
			return reflect.Uint
		case types.Uint8:
			return reflect.Uint8
		case types.Uint16:
			return reflect.Uint16
		case types.Uint32:
			return reflect.Uint32
		case types.Uint64:
			return reflect.Uint64
		case types.Uintptr:
			return reflect.Uintptr
		case types.Float32:
			return reflect.Float32
		case types.Float64:
			return reflect.Float64
		case types.Complex64:
			return reflect.Complex64
		case types.Complex128:
			return reflect.Complex128
		case types.String:
			return reflect.String
		case types.UnsafePointer:
			return reflect.UnsafePointer
		}
	case *types.Array:
		return reflect.Array
	case *types.Chan:
		return reflect.Chan
	case *types.Signature:
		return reflect.Func
	case *types.Interface:
		return reflect.Interface
	case *types.Map:
		return reflect.Map
	case *types.Pointer:
		return reflect.Pointer
	case *types.Slice:
		return reflect.Slice
	case *types.Struct:
		return reflect.Struct
	}
	panic(fmt.Sprint("unexpected type: ", t))
}

// ---------------------------------------------------------------- reflect.Value accessors

func ext۰reflect۰Value۰Kind(fr *frame, args []value) value {
	return uint(reflectKind(rV2T(args[0]).t))
}

func ext۰reflect۰Value۰String(fr *frame, args []value) value {
	t := rV2T(args[0]).t
	if t == nil {
		return "<invalid Value>"
	}
	if reflectKind(t) == reflect.String {
		return rV2V(args[0])
	}
	return "<" + typeString(t) + " Value>"
}

func ext۰reflect۰Value۰Type(fr *frame, args []value) value {
	mustValid("reflect.Value.Type", args[0])
	return makeReflectType(rV2T(args[0]))
}

func ext۰reflect۰Value۰Uint(fr *frame, args []value) value {
	t := mustValid("reflect.Value.Uint", args[0])
	fr.i.x.noteRead(rVAddr(args[0]))
	switch v := rV2V(args[0]).(type) {
	case uint:
		return uint64(v)
	case uint8:
		return uint64(v)
	case uint16:
		return uint64(v)
	case uint32:
		return uint64(v)
	case uint64:
		return uint64(v)
	case uintptr:
		return uint64(v)
	case sym:
		if k := reflectKind(t); k >= reflect.Uint && k <= reflect.Uintptr {
			return fr.i.x.symConv(types.Typ[types.Uint64], t, v)
		}
	}
	panic(valueErr("reflect.Value.Uint", t))
}

func ext۰reflect۰Value۰Int(fr *frame, args []value) value {
	t := mustValid("reflect.Value.Int", args[0])
	fr.i.x.noteRead(rVAddr(args[0]))
	switch x := rV2V(args[0]).(type) {
	case int:
		return int64(x)
	case int8:
		return int64(x)
	case int16:
		return int64(x)
	case int32:
		return int64(x)
	case int64:
		return x
	case sym:
		if k := reflectKind(t); k >= reflect.Int && k <= reflect.Int64 {
			return fr.i.x.symConv(types.Typ[types.Int64], t, x)
		}
	}
	panic(valueErr("reflect.Value.Int", t))
}

func ext۰reflect۰Value۰Float(fr *frame, args []value) value {
	t := mustValid("reflect.Value.Float", args[0])
	fr.i.x.noteRead(rVAddr(args[0]))
	switch v := rV2V(args[0]).(type) {
	case float32:
		return float64(v)
	case float64:
		return float64(v)
	case sym:
		if k := reflectKind(t); k == reflect.Float32 || k == reflect.Float64 {
			return fr.i.x.symConv(types.Typ[types.Float64], t, v)
		}
	}
	panic(valueErr("reflect.Value.Float", t))
}

func ext۰reflect۰Value۰Bool(fr *frame, args []value) value {
	t := mustValid("reflect.Value.Bool", args[0])
	fr.i.x.noteRead(rVAddr(args[0]))
	if reflectKind(t) != reflect.Bool {
		panic(valueErr("reflect.Value.Bool", t))
	}
	return rV2V(args[0])
}

func ext۰reflect۰Value۰Complex(fr *frame, args []value) value {
	t := mustValid("reflect.Value.Complex", args[0])
	switch v := rV2V(args[0]).(type) {
	case complex64:
		return complex128(v)
	case complex128:
		return v
	}
	panic(valueErr("reflect.Value.Complex", t))
}

func ext۰reflect۰Value۰Bytes(fr *frame, args []value) value {
	t := mustValid("reflect.Value.Bytes", args[0])
	if s, ok := t.Underlying().(*types.Slice); ok {
		if b, ok := s.Elem().Underlying().(*types.Basic); ok && b.Kind() == types.Uint8 {
			return rV2V(args[0])
		}
	}
	panic("reflect.Value.Bytes of non-byte slice")
}

func ext۰reflect۰Value۰Len(fr *frame, args []value) value {
	t := mustValid("reflect.Value.Len", args[0])
	switch v := rV2V(args[0]).(type) {
	case string:
		return len(v)
	case symString:
		return len(v.bytes)
	case array:
		return len(v)
	case []value:
		return len(v)
	case *omap:
		return v.len()
	}
	panic(valueErr("reflect.Value.Len", t))
}

func ext۰reflect۰Value۰Cap(fr *frame, args []value) value {
	t := mustValid("reflect.Value.Cap", args[0])
	switch v := rV2V(args[0]).(type) {
	case array:
		return len(v)
	case []value:
		return cap(v)
	}
	panic(valueErr("reflect.Value.Cap", t))
}

// mapKey converts a key Value into the boxed form the map uses.
func mapKey(mt *types.Map, kv value, method string) value {
	kt := rV2T(kv).t
	if kt == nil {
		panic("reflect: call of " + method + " on zero Value")
	}
	if !types.AssignableTo(kt, mt.Key()) {
		panic(method + ": value of type " + typeString(kt) + " is not assignable to type " + typeString(mt.Key()))
	}
	return assignConv(mt.Key(), kt, rV2V(kv))
}

// assignConv adjusts the boxed representation when a value of static type src is
// assigned to a location of type dst (only interface boxing changes the box).
func assignConv(dst, src types.Type, v value) value {
	_, dstI := dst.Underlying().(*types.Interface)
	_, srcI := src.Underlying().(*types.Interface)
	if dstI && !srcI {
		return iface{t: src, v: v}
	}
	return v
}

func ext۰reflect۰Value۰MapIndex(fr *frame, args []value) value {
	t := mustValid("reflect.Value.MapIndex", args[0])
	mt, ok := t.Underlying().(*types.Map)
	if !ok {
		panic(valueErr("reflect.Value.MapIndex", t))
	}
	k := mapKey(mt, args[1], "reflect.Value.MapIndex")
	if sk, isS := k.(sym); isS {
		k = fr.concKey(mt.Key(), sk)
	}
	m := rV2V(args[0]).(*omap)
	k = fr.resolveStrKey(m, k)
	if v, ok := m.get(k); ok {
		return makeReflectValue(mt.Elem(), copyOf(mt.Elem(), v))
	}
	return invalidValue()
}

func ext۰reflect۰Value۰SetMapIndex(fr *frame, args []value) value {
	t := mustValid("reflect.Value.SetMapIndex", args[0])
	mt, ok := t.Underlying().(*types.Map)
	if !ok {
		panic(valueErr("reflect.Value.SetMapIndex", t))
	}
	if rVFlags(args[0])&rvRO != 0 {
		panic("reflect: reflect.Value.SetMapIndex using value obtained using unexported field")
	}
	k := mapKey(mt, args[1], "reflect.Value.SetMapIndex")
	if sk, isS := k.(sym); isS {
		k = fr.concKey(mt.Key(), sk)
	}
	m := rV2V(args[0]).(*omap)
	k = fr.resolveStrKey(m, k)
	et := rV2T(args[2]).t
	if et == nil {
		m.del(k)
		return nil
	}
	if !types.AssignableTo(et, mt.Elem()) {
		panic("reflect.Value.SetMapIndex: value of type " + typeString(et) + " is not assignable to type " + typeString(mt.Elem()))
	}
	if m == nil {
		panic("assignment to entry in nil map")
	}
	m.set(k, assignConv(mt.Elem(), et, copyOf(et, rV2V(args[2]))))
	return nil
}

func ext۰reflect۰Value۰MapKeys(fr *frame, args []value) value {
	t := mustValid("reflect.Value.MapKeys", args[0])
	mt, ok := t.Underlying().(*types.Map)
	if !ok {
		panic(valueErr("reflect.Value.MapKeys", t))
	}
	keys := []value{}
	for _, k := range rV2V(args[0]).(*omap).keys() {
		keys = append(keys, makeReflectValue(mt.Key(), k))
	}
	return keys
}

func ext۰reflect۰Value۰NumField(fr *frame, args []value) value {
	t := mustValid("reflect.Value.NumField", args[0])
	st, ok := t.Underlying().(*types.Struct)
	if !ok {
		panic(valueErr("reflect.Value.NumField", t))
	}
	return st.NumFields()
}

func ext۰reflect۰Value۰NumMethod(fr *frame, args []value) value {
	t := rV2T(args[0]).t
	if t == nil {
		panic("reflect: call of reflect.Value.NumMethod on zero Value")
	}
	return len(exportedMethods(fr.i.prog, t))
}

func ext۰reflect۰Value۰Pointer(fr *frame, args []value) value {
	switch v := rV2V(args[0]).(type) {
	case *value:
		return uintptr(unsafe.Pointer(v))
	case []value:
		return reflect.ValueOf(v).Pointer()
	case *omap:
		return uintptr(unsafe.Pointer(v))
	case *ssa.Function:
		return uintptr(unsafe.Pointer(v))
	case *closure:
		return uintptr(unsafe.Pointer(v))
	default:
		panic(fmt.Sprintf("reflect.(Value).Pointer(%T)", v))
	}
}

func ext۰reflect۰Value۰Index(fr *frame, args []value) value {
	t := mustValid("reflect.Value.Index", args[0])
	idx := args[1]
	cur := rV2V(args[0])
	switch cur.(type) {
	case array, []value, string, symString:
	default:
		panic(valueErr("reflect.Value.Index", t))
	}
	if s, ok := idx.(sym); ok {
		n := lenOf(cur)
		xp := fr.i.x
		in := xp.mk("(bvult "+s.e+" "+bvLit(uint64(n), s.s.bits())+")", sBool)
		if n == 0 || !xp.decide(in, "reflect-index-in-range") {
			panic("reflect: slice index out of range")
		}
		idx = int(xp.concretize(s, "reflect.Value.Index"))
	}
	i := idx.(int)
	flags := rVFlags(args[0])
	switch v := cur.(type) {
	case array:
		if i < 0 || i >= len(v) {
			panic("reflect: array index out of range")
		}
		et := t.Underlying().(*types.Array).Elem()
		if rVAddr(args[0]) != nil {
			return makeReflectHandle(et, &v[i], flags)
		}
		return makeReflectValue(et, v[i])
	case []value:
		if i < 0 || i >= len(v) {
			panic("reflect: slice index out of range")
		}
		return makeReflectHandle(t.Underlying().(*types.Slice).Elem(), &v[i], flags)
	case string:
		if i < 0 || i >= len(v) {
			panic("reflect: string index out of range")
		}
		return makeReflectValue(types.Typ[types.Uint8], v[i])
	case symString:
		if i < 0 || i >= len(v.bytes) {
			panic("reflect: string index out of range")
		}
		return makeReflectValue(types.Typ[types.Uint8], v.bytes[i])
	}
	panic("unreachable")
}

func ext۰reflect۰Value۰CanAddr(fr *frame, args []value) value {
	return rVAddr(args[0]) != nil
}

func ext۰reflect۰Value۰CanSet(fr *frame, args []value) value {
	return rVAddr(args[0]) != nil && rVFlags(args[0])&rvRO == 0
}

func ext۰reflect۰Value۰CanInterface(fr *frame, args []value) value {
	if rV2T(args[0]).t == nil {
		panic("reflect: call of reflect.Value.CanInterface on zero Value")
	}
	return rVFlags(args[0])&rvRO == 0
}

func ext۰reflect۰Value۰Elem(fr *frame, args []value) value {
	t := mustValid("reflect.Value.Elem", args[0])
	switch u := t.Underlying().(type) {
	case *types.Interface:
		x := rV2V(args[0]).(iface)
		if x.t == nil {
			return invalidValue()
		}
		r := makeReflectValue(x.t, x.v)
		r.(structure)[3] = rVFlags(args[0])
		return r
	case *types.Pointer:
		x := rV2V(args[0]).(*value)
		if x == nil {
			return invalidValue()
		}
		return makeReflectHandle(u.Elem(), x, rVFlags(args[0]))
	}
	panic(valueErr("reflect.Value.Elem", t))
}

func fieldHandle(parent value, st *types.Struct, i int) value {
	f := st.Field(i)
	flags := rVFlags(parent)
	if !f.Exported() {
		flags |= rvRO
	}
	if a := rVAddr(parent); a != nil {
		return makeReflectHandle(f.Type(), &(*a).(structure)[i], flags)
	}
	r := makeReflectValue(f.Type(), rV2V(parent).(structure)[i])
	r.(structure)[3] = flags
	return r
}

func ext۰reflect۰Value۰Field(fr *frame, args []value) value {
	t := mustValid("reflect.Value.Field", args[0])
	st, ok := t.Underlying().(*types.Struct)
	if !ok {
		panic(valueErr("reflect.Value.Field", t))
	}
	i := args[1].(int)
	if i < 0 || i >= st.NumFields() {
		panic("reflect: Field index out of range")
	}
	return fieldHandle(args[0], st, i)
}

func ext۰reflect۰Value۰FieldByName(fr *frame, args []value) value {
	t := mustValid("reflect.Value.FieldByName", args[0])
	if _, ok := t.Underlying().(*types.Struct); !ok {
		panic(valueErr("reflect.Value.FieldByName", t))
	}
	name := args[1].(string)
	obj, index, _ := types.LookupFieldOrMethod(t, true, nil, name)
	if _, isVar := obj.(*types.Var); !isVar || obj == nil {
		// unexported names need the package; try each field's package
		obj = nil
		if st, ok := t.Underlying().(*types.Struct); ok {
			for i := 0; i < st.NumFields(); i++ {
				if st.Field(i).Name() == name {
					return fieldHandle(args[0], st, i)
				}
			}
		}
		return invalidValue()
	}
	cur := args[0]
	for _, i := range index {
		ct := rV2T(cur).t
		if p, ok := ct.Underlying().(*types.Pointer); ok {
			x := rV2V(cur).(*value)
			if x == nil {
				panic("reflect: indirection through nil pointer to embedded struct")
			}
			cur = makeReflectHandle(p.Elem(), x, rVFlags(cur))
			ct = p.Elem()
		}
		cur = fieldHandle(cur, ct.Underlying().(*types.Struct), i)
	}
	return cur
}

func ext۰reflect۰Value۰Interface(fr *frame, args []value) value {
	return ext۰reflect۰valueInterface(args)
}

func ext۰reflect۰valueInterface(args []value) value {
	v := args[0].(structure)
	t := rV2T(v).t
	if t == nil {
		panic("reflect: call of reflect.Value.Interface on zero Value")
	}
	if rVFlags(v)&rvRO != 0 {
		panic("reflect.Value.Interface: cannot return value obtained from unexported field or method")
	}
	if _, ok := t.Underlying().(*types.Interface); ok {
		return rV2V(v).(iface)
	}
	return iface{t, copyOf(t, rV2V(v))}
}

func ext۰reflect۰Value۰IsNil(fr *frame, args []value) value {
	t := mustValid("reflect.Value.IsNil", args[0])
	switch x := rV2V(args[0]).(type) {
	case *value:
		return x == nil
	case *omap:
		return x == nil
	case iface:
		return x.t == nil
	case []value:
		return x == nil
	case *ssa.Function:
		return x == nil
	case *ssa.Builtin:
		return x == nil
	case *closure:
		return x == nil
	case chan value:
		return x == nil
	case rmethod:
		return false
	}
	panic(valueErr("reflect.Value.IsNil", t))
}

func ext۰reflect۰Value۰IsZero(fr *frame, args []value) value {
	t := mustValid("reflect.Value.IsZero", args[0])
	v := rV2V(args[0])
	switch x := v.(type) {
	case *value:
		return x == nil
	case *omap:
		return x == nil
	case []value:
		return x == nil
	case iface:
		return x.t == nil
	case *ssa.Function:
		return x == nil
	case *closure:
		return x == nil
	case rmethod:
		return false
	}
	return fr.i.x.symEquals(t, v, zero(t))
}

func ext۰reflect۰Value۰IsValid(fr *frame, args []value) value {
	return rV2T(args[0]).t != nil
}

func mustSettable(method string, v value) (types.Type, *value) {
	t := mustValid(method, v)
	if rVFlags(v)&rvRO != 0 {
		panic("reflect: " + method + " using value obtained using unexported field")
	}
	a := rVAddr(v)
	if a == nil {
		panic("reflect: " + method + " using unaddressable value")
	}
	return t, a
}

func ext۰reflect۰Value۰Set(fr *frame, args []value) value {
	t, a := mustSettable("reflect.Value.Set", args[0])
	xt := rV2T(args[1]).t
	if xt == nil {
		panic("reflect: call of reflect.Value.Set on zero Value")
	}
	if rVFlags(args[1])&rvRO != 0 {
		panic("reflect: reflect.Value.Set using value obtained using unexported field")
	}
	if !types.AssignableTo(xt, t) {
		panic("reflect.Set: value of type " + typeString(xt) + " is not assignable to type " + typeString(t))
	}
	store(t, a, assignConv(t, xt, copyOf(xt, rV2V(args[1]))))
	fr.i.x.noteAccess(a, true)
	return nil
}

func ext۰reflect۰Value۰SetInt(fr *frame, args []value) value {
	t, a := mustSettable("reflect.Value.SetInt", args[0])
	fr.i.x.noteWrite(a)
	if k := reflectKind(t); k < reflect.Int || k > reflect.Int64 {
		panic(valueErr("reflect.Value.SetInt", t))
	}
	if sx, ok := args[1].(sym); ok {
		*a = fr.i.x.symConv(t, types.Typ[types.Int64], sx)
		return nil
	}
	*a = concreteOf(t, uint64(args[1].(int64)))
	return nil
}

func ext۰reflect۰Value۰SetUint(fr *frame, args []value) value {
	t, a := mustSettable("reflect.Value.SetUint", args[0])
	fr.i.x.noteWrite(a)
	if k := reflectKind(t); k < reflect.Uint || k > reflect.Uintptr {
		panic(valueErr("reflect.Value.SetUint", t))
	}
	if sx, ok := args[1].(sym); ok {
		*a = fr.i.x.symConv(t, types.Typ[types.Uint64], sx)
		return nil
	}
	*a = concreteOf(t, args[1].(uint64))
	return nil
}

func ext۰reflect۰Value۰SetFloat(fr *frame, args []value) value {
	t, a := mustSettable("reflect.Value.SetFloat", args[0])
	fr.i.x.noteWrite(a)
	k := reflectKind(t)
	if k != reflect.Float32 && k != reflect.Float64 {
		panic(valueErr("reflect.Value.SetFloat", t))
	}
	if sx, ok := args[1].(sym); ok {
		*a = fr.i.x.symConv(t, types.Typ[types.Float64], sx)
		return nil
	}
	if k == reflect.Float32 {
		*a = float32(args[1].(float64))
	} else {
		*a = args[1].(float64)
	}
	return nil
}

func ext۰reflect۰Value۰SetBool(fr *frame, args []value) value {
	t, a := mustSettable("reflect.Value.SetBool", args[0])
	fr.i.x.noteWrite(a)
	if reflectKind(t) != reflect.Bool {
		panic(valueErr("reflect.Value.SetBool", t))
	}
	*a = args[1]
	return nil
}

func ext۰reflect۰Value۰SetString(fr *frame, args []value) value {
	t, a := mustSettable("reflect.Value.SetString", args[0])
	fr.i.x.noteWrite(a)
	if reflectKind(t) != reflect.String {
		panic(valueErr("reflect.Value.SetString", t))
	}
	*a = args[1]
	return nil
}

func ext۰reflect۰Value۰Addr(fr *frame, args []value) value {
	t := mustValid("reflect.Value.Addr", args[0])
	a := rVAddr(args[0])
	if a == nil {
		panic("reflect.Value.Addr of unaddressable value")
	}
	return makeReflectValue(types.NewPointer(t), a)
}

func methodValue(fr *frame, recv value, t types.Type, sel *types.Selection) value {
	sig := sel.Type().(*types.Signature)
	fn := fr.i.prog.MethodValue(sel)
	rv := copyOf(t, rV2V(recv))
	ft := types.NewSignatureType(nil, nil, nil, sig.Params(), sig.Results(), sig.Variadic())
	return makeReflectValue(ft, rmethod{fn: fn, recv: rv})
}

func ext۰reflect۰Value۰MethodByName(fr *frame, args []value) value {
	t := mustValid("reflect.Value.MethodByName", args[0])
	name := args[1].(string)
	if rVFlags(args[0])&rvRO != 0 {
		return invalidValue()
	}
	if it, ok := t.Underlying().(*types.Interface); ok {
		_ = it
		x := rV2V(args[0]).(iface)
		if x.t == nil {
			panic("reflect: Method on nil interface value")
		}
		return ext۰reflect۰Value۰MethodByName(fr, []value{makeReflectValue(x.t, x.v), name})
	}
	for _, sel := range exportedMethods(fr.i.prog, t) {
		if sel.Obj().Name() == name {
			return methodValue(fr, args[0], t, sel)
		}
	}
	return invalidValue()
}

func ext۰reflect۰Value۰Method(fr *frame, args []value) value {
	t := mustValid("reflect.Value.Method", args[0])
	ms := exportedMethods(fr.i.prog, t)
	i := args[1].(int)
	if i < 0 || i >= len(ms) {
		panic("reflect: Method index out of range")
	}
	return methodValue(fr, args[0], t, ms[i])
}

func ext۰reflect۰Value۰Call(fr *frame, args []value) value {
	t := mustValid("reflect.Value.Call", args[0])
	sig, ok := t.Underlying().(*types.Signature)
	if !ok {
		panic(valueErr("reflect.Value.Call", t))
	}
	in := args[1].([]value)
	np := sig.Params().Len()
	if sig.Variadic() {
		if len(in) < np-1 {
			panic("reflect: Call with too few input arguments")
		}
	} else if len(in) != np {
		if len(in) < np {
			panic("reflect: Call with too few input arguments")
		}
		panic("reflect: Call with too many input arguments")
	}
	for _, a := range in {
		if rV2T(a).t == nil {
			panic("reflect: Call using zero Value argument")
		}
	}
	conv1 := func(a value, pt types.Type) value {
		at := rV2T(a).t
		if !types.AssignableTo(at, pt) {
			panic("reflect: Call using " + typeString(at) + " as type " + typeString(pt))
		}
		return assignConv(pt, at, copyOf(at, rV2V(a)))
	}
	var cargs []value
	fixed := np
	if sig.Variadic() {
		fixed = np - 1
	}
	for k := 0; k < fixed; k++ {
		cargs = append(cargs, conv1(in[k], sig.Params().At(k).Type()))
	}
	if sig.Variadic() {
		et := sig.Params().At(np - 1).Type().(*types.Slice).Elem()
		rest := make([]value, 0, len(in)-fixed)
		for k := fixed; k < len(in); k++ {
			rest = append(rest, conv1(in[k], et))
		}
		cargs = append(cargs, rest)
	}
	var res value
	switch f := rV2V(args[0]).(type) {
	case rmethod:
		res = call(fr.i, fr, token.NoPos, f.fn, append([]value{f.recv}, cargs...))
	case *ssa.Function:
		if f == nil {
			panic("reflect: call of nil function")
		}
		res = call(fr.i, fr, token.NoPos, f, cargs)
	case *closure:
		res = call(fr.i, fr, token.NoPos, f, cargs)
	default:
		panic(unsupported(fmt.Sprintf("reflect.Value.Call on %T", f)))
	}
	out := []value{}
	switch sig.Results().Len() {
	case 0:
	case 1:
		out = append(out, makeReflectValue(sig.Results().At(0).Type(), res))
	default:
		for k, r := range res.(tuple) {
			out = append(out, makeReflectValue(sig.Results().At(k).Type(), r))
		}
	}
	return out
}

func ext۰reflect۰Value۰Convert(fr *frame, args []value) value {
	t := mustValid("reflect.Value.Convert", args[0])
	dt := args[1].(iface).v.(rtype).t
	if !types.ConvertibleTo(t, dt) {
		panic("reflect.Value.Convert: value of type " + typeString(t) + " cannot be converted to type " + typeString(dt))
	}
	v := rV2V(args[0])
	if _, ok := dt.Underlying().(*types.Interface); ok {
		return makeReflectValue(dt, assignConv(dt, t, v))
	}
	if _, ok := t.Underlying().(*types.Basic); ok {
		if sx, isS := v.(sym); isS {
			return makeReflectValue(dt, fr.i.x.symConv(dt, t, sx))
		}
		return makeReflectValue(dt, conv(dt, t, v))
	}
	return makeReflectValue(dt, v)
}

func ext۰reflect۰error۰Error(fr *frame, args []value) value {
	return args[0]
}

// newMethod creates a new method of the specified name, package and receiver type.
func newMethod(pkg *ssa.Package, recvType types.Type, name string) *ssa.Function {
	sig := types.NewSignatureType(types.NewParam(token.NoPos, nil, "recv", recvType), nil, nil, nil, nil, false)
	fn := pkg.Prog.NewFunction(name, sig, "fake reflect method")
	fn.Pkg = pkg
	return fn
}

func initReflect(i *interpreter) {
	i.reflectPackage = &ssa.Package{
		Prog:    i.prog,
		Pkg:     reflectTypesPackage,
		Members: make(map[string]ssa.Member),
	}

	// Clobber the type-checker's notion of reflect.Value's underlying type so that it
	// matches the fake one in the number of fields (see the stock interpreter).
	if r := i.prog.ImportedPackage("reflect"); r != nil {
		rV := r.Pkg.Scope().Lookup("Value").Type().(*types.Named)
		tEface := types.NewInterface(nil, nil).Complete()
		rV.SetUnderlying(types.NewStruct([]*types.Var{
			types.NewField(token.NoPos, r.Pkg, "t", tEface, false), // a lie
			types.NewField(token.NoPos, r.Pkg, "v", tEface, false),
			types.NewField(token.NoPos, r.Pkg, "a", tEface, false),
			types.NewField(token.NoPos, r.Pkg, "f", tEface, false),
		}, nil))
	}

	i.rtypeMethods = methodSet{}
	for _, n := range []string{"Bits", "Elem", "Key", "Field", "In", "Kind", "NumField", "NumIn", "NumMethod", "NumOut", "Out", "Size",
		"String", "Name", "PkgPath", "IsVariadic", "Method", "MethodByName", "AssignableTo", "ConvertibleTo", "Implements", "Comparable", "Len", "FieldByName"} {
		i.rtypeMethods[n] = newMethod(i.reflectPackage, rtypeType, n)
	}
	i.errorMethods = methodSet{
		"Error": newMethod(i.reflectPackage, errorType, "Error"),
	}
}
