package interp

// Entry points of gosym: program preparation and the parallel exploration loop.

import (
	"fmt"
	"go/token"
	"go/types"
	"os"
	"runtime"
	"runtime/debug"
	"strconv"
	"strings"
	"sync"

	"golang.org/x/tools/go/ssa"
)

func mustDeref(t types.Type) types.Type {
	if p, ok := t.Underlying().(*types.Pointer); ok {
		return p.Elem()
	}
	panic("not a pointer: " + t.String())
}

// Prepared holds what is shared (read-only) by all workers.
type Prepared struct {
	Prog                       *ssa.Program
	Inits                      []*ssa.Function
	Entry                      *ssa.Function
	Args                       []value
	KBDir                      string // directory with heap images <template>.json
	Mod                        string // module path of the code under test
	reflectPackage             *ssa.Package
	rtypeMethods, errorMethods methodSet
	runtimeErrorString         types.Type
}

// Prepare must be called once per loaded program (it rewrites reflect.Value's type).
func Prepare(prog *ssa.Program, entry *ssa.Function, rawArgs []string, initPkgs []string, mod, kbdir string) (*Prepared, error) {
	p := &Prepared{Prog: prog, Entry: entry, KBDir: kbdir, Mod: mod}
	if runtimePkg := prog.ImportedPackage("runtime"); runtimePkg != nil {
		p.runtimeErrorString = runtimePkg.Type("errorString").Object().Type()
	}
	i := &interpreter{prog: prog}
	initReflect(i)
	p.reflectPackage, p.rtypeMethods, p.errorMethods = i.reflectPackage, i.rtypeMethods, i.errorMethods
	for _, ip := range initPkgs {
		pkg := prog.ImportedPackage(ip)
		if pkg == nil {
			continue // not in the dependency closure of this harness
		}
		if f := pkg.Func("init"); f != nil {
			p.Inits = append(p.Inits, f)
		}
	}
	params := entry.Signature.Params()
	if params.Len() != len(rawArgs) {
		return nil, fmt.Errorf("entry %s takes %d parameters, %d given", entry, params.Len(), len(rawArgs))
	}
	for k, a := range rawArgs {
		t := params.At(k).Type()
		b, ok := t.Underlying().(*types.Basic)
		if !ok {
			return nil, fmt.Errorf("entry parameter %d: unsupported type %s", k, t)
		}
		switch {
		case b.Kind() == types.String:
			p.Args = append(p.Args, a)
		case b.Kind() == types.Bool:
			p.Args = append(p.Args, a == "true" || a == "1")
		case b.Info()&types.IsInteger != 0:
			n, err := strconv.ParseInt(a, 0, 64)
			if err != nil {
				return nil, err
			}
			p.Args = append(p.Args, concreteOf(t, uint64(n)))
		default:
			return nil, fmt.Errorf("entry parameter %d: unsupported type %s", k, t)
		}
	}
	return p, nil
}

func (p *Prepared) newInterp(x *Explorer) *interpreter {
	return &interpreter{
		prog:               p.Prog,
		globals:            make(map[*ssa.Global]*value),
		sizes:              &types.StdSizes{WordSize: 8, MaxAlign: 8},
		goroutines:         1,
		reflectPackage:     p.reflectPackage,
		rtypeMethods:       p.rtypeMethods,
		errorMethods:       p.errorMethods,
		runtimeErrorString: p.runtimeErrorString,
		x:                  x,
		prep:               p,
	}
}

// runPath executes the entry once under the explorer's current prefix.
func (p *Prepared) runPath(x *Explorer) (end string, msg string) {
	i := p.newInterp(x)
	defer func() {
		if r := recover(); r != nil {
			switch r := r.(type) {
			case pathEnd:
				end, msg = r.kind.String(), r.msg
				if r.kind == endUnsupported {
					msg += stackNote(i)
				}
				if r.kind == endLimit && x.limitLabel != "" {
					var m []ModelVal
					var ev []string
					if x.query("", true) == "sat" {
						m = x.model()
						ev = x.renderedEvents()
					}
					x.popModel()
					x.recordViolation(x.limitLabel, true, m, ev, nil)
					end, msg = "stop", "budget exhausted: "+r.msg
				}
			case targetPanic:
				end, msg = "target-panic", toString(r.v)
			case runtime.Error:
				end, msg = "target-panic", r.Error()+stackNote(i)
				if isInternal(r) {
					end = "unsupported"
					msg = "internal: " + r.Error() + stackNote(i)
					if os.Getenv("GOSYM_STACK") != "" {
						msg += "\n" + string(debug.Stack())
					}
				}
			case string:
				if legitTargetPanic(r) {
					end, msg = "target-panic", r+stackNote(i)
				} else {
					end, msg = "unsupported", "internal: "+r+stackNote(i)
					if os.Getenv("GOSYM_STACK") != "" {
						msg += "\n" + string(debug.Stack())
					}
				}
			default:
				end, msg = "unsupported", fmt.Sprintf("internal: %T %v", r, r)+stackNote(i)
			}
		}
	}()
	for _, f := range p.Inits {
		i.skipInitCalls = true
		call(i, nil, token.NoPos, f, nil)
		i.skipInitCalls = false
	}
	call(i, nil, token.NoPos, p.Entry, append([]value{}, p.Args...))
	return "ok", ""
}

func stackNote(i *interpreter) string {
	n := len(i.panicSnap)
	if n == 0 {
		return ""
	}
	// innermost first, module path shortened
	var parts []string
	for k := n - 1; k >= 0 && len(parts) < 8; k-- {
		parts = append(parts, strings.ReplaceAll(i.panicSnap[k], "github.com/hyperjumptech/grule-rule-engine/", ""))
	}
	return " [in " + strings.Join(parts, " < ") + "]"
}

// isInternal reports whether a Go run-time error raised while interpreting is the
// interpreter's own confusion (e.g. a symbolic value where a concrete one was expected)
// rather than a faithful rendering of a run-time panic of the target program.
func isInternal(r runtime.Error) bool {
	if _, ok := r.(*runtime.TypeAssertionError); ok {
		return true
	}
	return !legitRuntimeMsg(r.Error())
}

func legitRuntimeMsg(m string) bool {
	for _, s := range []string{"invalid memory address or nil pointer dereference", "index out of range", "slice bounds out of range",
		"integer divide by zero", "assignment to entry in nil map", "makeslice:", "negative shift amount"} {
		if strings.Contains(m, s) {
			return true
		}
	}
	return false
}

// legitTargetPanic recognises the string panics by which the interpreter renders
// run-time panics of the target program.
func legitTargetPanic(m string) bool {
	for _, s := range []string{"runtime error:", "interface conversion:", "method invoked on nil interface", "value method ",
		"reflect:", "reflect.", "call of nil function", "comparing uncomparable", "unhashable type", "array length is greater",
		"assignment to entry in nil map", "all goroutines are asleep"} {
		if strings.HasPrefix(m, s) {
			return true
		}
	}
	return false
}

// Explore runs the exploration to completion (or to its limits) on cfg.Workers workers.
func Explore(p *Prepared, cfg Config) (*Shared, error) {
	sh := NewShared(cfg)
	var wg sync.WaitGroup
	errs := make(chan error, cfg.Workers)
	for w := 0; w < cfg.Workers; w++ {
		x, err := NewExplorer(sh)
		if err != nil {
			return nil, err
		}
		wg.Add(1)
		go func(x *Explorer) {
			defer wg.Done()
			defer x.Close()
			for {
				prefix, ok := sh.pop()
				if !ok {
					break
				}
				x.startPath(prefix)
				end, msg := p.runPath(x)
				if x.S.dead {
					errs <- fmt.Errorf("solver process died")
					sh.mu.Lock()
					sh.stopped = true
					sh.mu.Unlock()
					sh.cond.Broadcast()
				}
				x.endPath(end, msg)
				sh.done()
			}
			x.finish()
		}(x)
	}
	wg.Wait()
	select {
	case e := <-errs:
		return sh, e
	default:
	}
	return sh, nil
}
