package interp

// encoding/json.Unmarshal for CONCRETE input: the text is decoded natively into interface{} and assigned,
// type-directed, into the executor value behind the destination pointer, following encoding/json's rules for the
// subset used here (structs by json tag / case-insensitive field name, slices, map[string]T, pointers, interface{},
// strings, bools, numbers, null). A kind mismatch yields an error like json.UnmarshalTypeError.

import (
	"encoding/json"
	"fmt"
	"go/types"
	"reflect"
	"strings"
)

func init() {
	externals["encoding/json.Unmarshal"] = func(fr *frame, args []value) value {
		raw, ok := args[0].([]value)
		if !ok {
			panic(unsupported("json.Unmarshal: data"))
		}
		buf := make([]byte, len(raw))
		for i, b := range raw {
			c, ok := b.(uint8)
			if !ok {
				panic(unsupported("json.Unmarshal on symbolic bytes (encoding/json is not encoded; DESIGN §9)"))
			}
			buf[i] = c
		}
		dst := args[1].(iface)
		pt, ok := dst.t.Underlying().(*types.Pointer)
		if !ok || dst.v.(*value) == nil {
			return iface{t: errorType, v: "json: Unmarshal(non-pointer " + typeString(dst.t) + ")"}
		}
		var tree any
		if err := json.Unmarshal(buf, &tree); err != nil {
			return iface{t: errorType, v: err.Error()}
		}
		cell := dst.v.(*value)
		nv, err := jsonAssign(fr, pt.Elem(), *cell, tree)
		if err != "" {
			return iface{t: errorType, v: err}
		}
		store(pt.Elem(), cell, nv)
		return iface{}
	}
}

func jsonFieldName(st *types.Struct, i int) (string, bool) {
	tag := reflect.StructTag(st.Tag(i)).Get("json")
	name := strings.Split(tag, ",")[0]
	if name == "-" {
		return "", false
	}
	if name == "" {
		name = st.Field(i).Name()
	}
	return name, st.Field(i).Exported()
}

func jsonAssign(fr *frame, t types.Type, cur value, j any) (value, string) {
	if j == nil {
		switch t.Underlying().(type) {
		case *types.Pointer, *types.Slice, *types.Map, *types.Interface:
			return zero(t), ""
		}
		return cur, "" // null leaves non-nilable values unchanged
	}
	switch u := t.Underlying().(type) {
	case *types.Interface:
		return jsonToIface(fr, j), ""
	case *types.Pointer:
		c := zero(u.Elem())
		nv, err := jsonAssign(fr, u.Elem(), c, j)
		if err != "" {
			return nil, err
		}
		cell := new(value)
		*cell = nv
		return cell, ""
	case *types.Struct:
		m, ok := j.(map[string]any)
		if !ok {
			return nil, fmt.Sprintf("json: cannot unmarshal %s into Go value of type %s", jsonKind(j), typeString(t))
		}
		st := append(structure{}, cur.(structure)...)
		for i := 0; i < u.NumFields(); i++ {
			name, ok := jsonFieldName(u, i)
			if !ok {
				continue
			}
			var val any
			found := false
			if v, ok := m[name]; ok {
				val, found = v, true
			} else {
				for k, v := range m {
					if strings.EqualFold(k, name) {
						val, found = v, true
						break
					}
				}
			}
			if !found {
				continue
			}
			nv, err := jsonAssign(fr, u.Field(i).Type(), st[i], val)
			if err != "" {
				return nil, err
			}
			st[i] = nv
		}
		return st, ""
	case *types.Slice:
		arr, ok := j.([]any)
		if !ok {
			return nil, fmt.Sprintf("json: cannot unmarshal %s into Go value of type %s", jsonKind(j), typeString(t))
		}
		out := make([]value, len(arr))
		for i, e := range arr {
			nv, err := jsonAssign(fr, u.Elem(), zero(u.Elem()), e)
			if err != "" {
				return nil, err
			}
			out[i] = nv
		}
		return out, ""
	case *types.Map:
		m, ok := j.(map[string]any)
		if !ok {
			return nil, fmt.Sprintf("json: cannot unmarshal %s into Go value of type %s", jsonKind(j), typeString(t))
		}
		om := makeMap(u.Key(), int64(len(m))).(*omap)
		keys := make([]string, 0, len(m))
		for k := range m {
			keys = append(keys, k)
		}
		sortStrings(keys)
		for _, k := range keys {
			nv, err := jsonAssign(fr, u.Elem(), zero(u.Elem()), m[k])
			if err != "" {
				return nil, err
			}
			om.set(k, nv)
		}
		return om, ""
	case *types.Basic:
		switch {
		case u.Kind() == types.String:
			if s, ok := j.(string); ok {
				return s, ""
			}
		case u.Kind() == types.Bool:
			if b, ok := j.(bool); ok {
				return b, ""
			}
		case u.Info()&types.IsFloat != 0:
			if f, ok := j.(float64); ok {
				if u.Kind() == types.Float32 {
					return float32(f), ""
				}
				return f, ""
			}
		case u.Info()&types.IsInteger != 0:
			if f, ok := j.(float64); ok {
				if f != float64(int64(f)) {
					return nil, fmt.Sprintf("json: cannot unmarshal number %v into Go value of type %s", f, typeString(t))
				}
				return concreteOf(t, uint64(int64(f))), ""
			}
		}
		return nil, fmt.Sprintf("json: cannot unmarshal %s into Go value of type %s", jsonKind(j), typeString(t))
	}
	panic(unsupported("json.Unmarshal into " + t.String()))
}

func jsonKind(j any) string {
	switch j.(type) {
	case string:
		return "string"
	case float64:
		return "number"
	case bool:
		return "bool"
	case []any:
		return "array"
	case map[string]any:
		return "object"
	}
	return "value"
}

var (
	tAny      = types.NewInterfaceType(nil, nil).Complete()
	tMapAny   = types.NewMap(types.Typ[types.String], tAny)
	tSliceAny = types.NewSlice(tAny)
)

func jsonToIface(fr *frame, j any) value {
	switch j := j.(type) {
	case nil:
		return iface{}
	case string:
		return iface{t: types.Typ[types.String], v: j}
	case float64:
		return iface{t: types.Typ[types.Float64], v: j}
	case bool:
		return iface{t: types.Typ[types.Bool], v: j}
	case []any:
		out := make([]value, len(j))
		for i, e := range j {
			out[i] = jsonToIface(fr, e)
		}
		return iface{t: tSliceAny, v: out}
	case map[string]any:
		om := makeMap(types.Typ[types.String], int64(len(j))).(*omap)
		keys := make([]string, 0, len(j))
		for k := range j {
			keys = append(keys, k)
		}
		sortStrings(keys)
		for _, k := range keys {
			om.set(k, jsonToIface(fr, j[k]))
		}
		return iface{t: tMapAny, v: om}
	}
	panic(unsupported("json value"))
}

func sortStrings(a []string) {
	for i := 1; i < len(a); i++ {
		for k := i; k > 0 && a[k] < a[k-1]; k-- {
			a[k], a[k-1] = a[k-1], a[k]
		}
	}
}
