package interp

// Byte-array strings: a string whose length is concrete on the path and whose bytes
// may be symbolic (_ BitVec 8) terms. Indexing, slicing, []byte conversion,
// concatenation and comparison are ordinary bit-vector code, so library string code
// can run from its own SSA on them.

import (
	"fmt"
	"go/token"
	"go/types"
	"unicode/utf8"
)

type symString struct {
	bytes []value // each uint8 or sym of sort BV8
}

func toBytes(v value) ([]value, bool) {
	switch v := v.(type) {
	case symString:
		return v.bytes, true
	case string:
		out := make([]value, len(v))
		for i := 0; i < len(v); i++ {
			out[i] = v[i]
		}
		return out, true
	}
	return nil, false
}

// normStr turns an all-concrete symString back into a Go string.
func normStr(b []value) value {
	buf := make([]byte, len(b))
	for i, e := range b {
		c, ok := e.(uint8)
		if !ok {
			return symString{bytes: b}
		}
		buf[i] = c
	}
	return string(buf)
}

func (x *Explorer) symStringBinop(op token.Token, a, b value) value {
	ab, ok1 := toBytes(a)
	bb, ok2 := toBytes(b)
	if !ok1 || !ok2 {
		panic(unsupported(fmt.Sprintf("symString %s on %T, %T", op, a, b)))
	}
	switch op {
	case token.ADD:
		return normStr(append(append([]value{}, ab...), bb...))
	case token.EQL, token.NEQ:
		var r value = true
		if len(ab) != len(bb) {
			r = false
		} else {
			for i := range ab {
				r = x.and(r, x.byteEq(ab[i], bb[i]))
			}
		}
		if op == token.NEQ {
			return x.not(r)
		}
		return r
	case token.LSS, token.LEQ, token.GTR, token.GEQ:
		if op == token.GTR || op == token.GEQ {
			ab, bb = bb, ab
		}
		// a < b (or a <= b) lexicographically, built from the end
		var res value
		if op == token.LSS || op == token.GTR {
			res = len(ab) < len(bb)
		} else {
			res = len(ab) <= len(bb)
		}
		n := len(ab)
		if len(bb) < n {
			n = len(bb)
		}
		for i := n - 1; i >= 0; i-- {
			lt := x.byteLt(ab[i], bb[i])
			eq := x.byteEq(ab[i], bb[i])
			res = x.or(lt, x.and(eq, res))
		}
		return res
	}
	panic(unsupported("symString op " + op.String()))
}

func (x *Explorer) byteEq(a, b value) value {
	if !isSym(a) && !isSym(b) {
		return a.(uint8) == b.(uint8)
	}
	return x.mk("(= "+litE(a)+" "+litE(b)+")", sBool)
}

func (x *Explorer) byteLt(a, b value) value {
	if !isSym(a) && !isSym(b) {
		return a.(uint8) < b.(uint8)
	}
	return x.mk("(bvult "+litE(a)+" "+litE(b)+")", sBool)
}

func (x *Explorer) convSymString(dst types.Type, v symString) value {
	switch d := dst.Underlying().(type) {
	case *types.Basic:
		if d.Kind() == types.String {
			return v
		}
	case *types.Slice:
		if b, ok := d.Elem().Underlying().(*types.Basic); ok && b.Kind() == types.Byte {
			return append([]value{}, v.bytes...)
		}
	}
	panic(unsupported("conversion of a byte-array string to " + dst.String()))
}

// symStringIter implements range over a byte-array string: ASCII bytes stay symbolic (one fork on "< 0x80"),
// a multi-byte sequence is concretised byte by byte and decoded natively.
type symStringIter struct {
	fr *frame
	s  symString
	i  int
}

func (it *symStringIter) next() tuple {
	if it.i >= len(it.s.bytes) {
		return []value{false, nil, nil}
	}
	xp := it.fr.i.x
	pos := it.i
	b0 := it.s.bytes[pos]
	if c, ok := b0.(uint8); ok && c < utf8.RuneSelf {
		it.i++
		return []value{true, pos, int32(c)}
	}
	if sb, ok := b0.(sym); ok {
		ascii := xp.mk("(bvult "+sb.e+" #x80)", sBool)
		if xp.decide(ascii, "range-string-ascii") {
			it.i++
			return []value{true, pos, xp.mk("((_ zero_extend 24) "+sb.e+")", sBV32)}
		}
	}
	// multi-byte: concretise up to 4 bytes and decode
	var buf []byte
	for k := pos; k < len(it.s.bytes) && k < pos+4; k++ {
		switch b := it.s.bytes[k].(type) {
		case uint8:
			buf = append(buf, b)
		case sym:
			buf = append(buf, byte(xp.concretize(b, "range-string-byte")))
		}
		if utf8.FullRune(buf) {
			break
		}
	}
	r, w := utf8.DecodeRune(buf)
	it.i += w
	return []value{true, pos, int32(r)}
}
