package interp

// Intercepts for the harness API (package <module>/zzverif). The same package has a
// native implementation (bodies) used for replay; here the calls are intercepted by name.

import (
	"encoding/hex"
	"fmt"
	"go/token"
	"go/types"
	"path/filepath"
	"strconv"
	"strings"
)

const verifSuffix = "/zzverif."

type harnessState struct {
	allocLimit int64 // bytes; <0 = none
	allocCands []int64
	allocSites map[string]int
	permMaps   map[*omap][]int
	fps        map[string]*footprint
	fpCur      *footprint
	symClock   bool // time.Now returns arbitrary non-decreasing instants
	nclock     int
	lastClock  string
	limitLabel string // a path cut at a per-path budget (instructions, call depth) is a violation of this label (C20: hang / stack exhaustion)
}

func (x *Explorer) resetHarnessState() {
	x.allocLimit = -1
	x.allocCands = nil
	x.allocSites = map[string]int{}
	x.permMaps = map[*omap][]int{}
	x.fps = map[string]*footprint{}
	x.fpCur = nil
	x.limitLabel = ""
	x.symClock, x.nclock, x.lastClock = false, 0, ""
}

// mapIter returns the iterator for a map; maps marked order-relevant are visited
// in a permutation chosen (once per path and map) by Choice.
func (x *Explorer) mapIter(m *omap) iter {
	if m == nil {
		return &omapIter{}
	}
	if perm, ok := x.permMaps[m]; ok {
		if perm == nil || len(perm) != len(m.ents) {
			// (re)choose: Lehmer code over the live entries
			var live []int
			for i := range m.ents {
				if m.ents[i].live {
					live = append(live, i)
				}
			}
			perm = nil
			for len(live) > 0 {
				k := 0
				if len(live) > 1 {
					k = x.choice(len(live), "map-order")
				}
				perm = append(perm, live[k])
				live = append(live[:k], live[k+1:]...)
			}
			// dead slots appended so that len(perm) == len(ents) marks "chosen"
			for i := range m.ents {
				if !m.ents[i].live {
					perm = append(perm, i)
				}
			}
			x.permMaps[m] = perm
		}
		return &omapIter{m: m, perm: perm}
	}
	return &omapIter{m: m}
}

func verifIntercept(name string) externalFn {
	i := strings.Index(name, verifSuffix)
	if i < 0 {
		return nil
	}
	if f := verifFns[name[i+len(verifSuffix):]]; f != nil {
		return f
	}
	return heapFns[name[i+len(verifSuffix):]]
}

var verifFns map[string]externalFn

func nondet(s ssort, goType string) externalFn {
	return func(fr *frame, args []value) value {
		return fr.i.x.fresh(args[0].(string), s, goType)
	}
}

func init() {
	verifFns = map[string]externalFn{
		"Symbolic": func(fr *frame, args []value) value { return true },
		"Bool":     nondet(sBool, "bool"),
		"Int":      nondet(sBV64, "int"),
		"Int8":     nondet(sBV8, "int8"),
		"Int16":    nondet(sBV16, "int16"),
		"Int32":    nondet(sBV32, "int32"),
		"Int64":    nondet(sBV64, "int64"),
		"Uint":     nondet(sBV64, "uint"),
		"Uint8":    nondet(sBV8, "uint8"),
		"Uint16":   nondet(sBV16, "uint16"),
		"Uint32":   nondet(sBV32, "uint32"),
		"Uint64":   nondet(sBV64, "uint64"),
		"Float32":  nondet(sF32, "float32"),
		"Float64":  nondet(sF64, "float64"),
		"String":   nondet(sStr, "string"),
		"Bytes": func(fr *frame, args []value) value {
			n := args[1].(int)
			out := make([]value, n)
			for k := range out {
				out[k] = fr.i.x.fresh(fmt.Sprintf("%s[%d]", args[0].(string), k), sBV8, "uint8")
			}
			return out
		},
		"Pin": func(fr *frame, args []value) value {
			// concrete bytes computed by the harness (e.g. a stored stream whose layout depends on map iteration order):
			// recorded with the path so that the native replay works on the very same bytes
			x := fr.i.x
			in := args[1].([]value)
			buf := make([]byte, len(in))
			for k, e := range in {
				c, ok := e.(uint8)
				if !ok {
					panic(unsupported("verif.Pin of symbolic bytes"))
				}
				buf[k] = c
			}
			label := args[0].(string)
			occ := 0
			for _, p := range x.pins {
				if p.Label == label {
					occ++
				}
			}
			x.pins = append(x.pins, ModelVal{Label: label, Occ: occ, Type: "pin", Str: hex.EncodeToString(buf), IsStr: true})
			return in
		},
		"Choice": func(fr *frame, args []value) value {
			return fr.i.x.choice(args[1].(int), args[0].(string))
		},
		"Assume": func(fr *frame, args []value) value { fr.i.x.assume(args[0]); return nil },
		"Assert": func(fr *frame, args []value) value { fr.i.x.assert(args[0].(string), args[1]); return nil },
		"Reach":  func(fr *frame, args []value) value { fr.i.x.reach(args[0].(string)); return nil },
		"Stop": func(fr *frame, args []value) value {
			panic(pathEnd{kind: endStop, msg: "harness bound: " + args[0].(string)})
		},
		"Outside": func(fr *frame, args []value) value {
			panic(pathEnd{kind: endOutside, msg: args[0].(string)})
		},
		"And":     func(fr *frame, args []value) value { return fr.i.x.and(args[0], args[1]) },
		"Or":      func(fr *frame, args []value) value { return fr.i.x.or(args[0], args[1]) },
		"Not":     func(fr *frame, args []value) value { return fr.i.x.not(args[0]) },
		"Implies": func(fr *frame, args []value) value { return fr.i.x.implies(args[0], args[1]) },
		"Iff": func(fr *frame, args []value) value {
			x := fr.i.x
			return x.and(x.implies(args[0], args[1]), x.implies(args[1], args[0]))
		},
		"IteBool":    func(fr *frame, args []value) value { return fr.i.x.ite(args[0], args[1], args[2]) },
		"IteInt":     func(fr *frame, args []value) value { return fr.i.x.ite(args[0], args[1], args[2]) },
		"IteInt64":   func(fr *frame, args []value) value { return fr.i.x.ite(args[0], args[1], args[2]) },
		"IteUint64":  func(fr *frame, args []value) value { return fr.i.x.ite(args[0], args[1], args[2]) },
		"IteFloat64": func(fr *frame, args []value) value { return fr.i.x.ite(args[0], args[1], args[2]) },
		"Event": func(fr *frame, args []value) value {
			fr.i.x.event(args[0].(string), args[1].([]value))
			return nil
		},
		"IsConcrete": func(fr *frame, args []value) value {
			return !containsSym(args[0].(iface).v)
		},
		"SetAllocPolicy": func(fr *frame, args []value) value {
			x := fr.i.x
			x.allocLimit = int64(args[0].(int))
			x.allocCands = nil
			for _, c := range args[1].([]value) {
				x.allocCands = append(x.allocCands, int64(c.(int)))
			}
			return nil
		},
		// LimitIsViolation(label): from here on, exhausting the per-path instruction / call-depth budget counts as a
		// violation of label (the input makes the code under test loop or recurse without bound)
		"LimitIsViolation": func(fr *frame, args []value) value {
			fr.i.x.limitLabel = args[0].(string)
			return nil
		},
		// SymbolicClock(): from here on time.Now() returns an arbitrary non-decreasing instant (environment stub)
		"ClockTick": func(fr *frame, args []value) value { return nil },
		// Cost(f): runs f and returns the number of SSA instructions it took on this path (natively: elapsed time / 50 ns)
		"Cost": func(fr *frame, args []value) value {
			before := fr.i.x.instrs
			call(fr.i, fr, token.NoPos, args[0], nil)
			return int(fr.i.x.instrs - before)
		},
		"SymbolicClock": func(fr *frame, args []value) value {
			fr.i.x.symClock = true
			return nil
		},
		"OrderRelevant": func(fr *frame, args []value) value {
			m, ok := args[0].(iface).v.(*omap)
			if !ok {
				panic(unsupported("OrderRelevant: not a map"))
			}
			if m != nil {
				fr.i.x.permMaps[m] = nil
			}
			return nil
		},
		"FloatIsNaN": func(fr *frame, args []value) value { return extIsNaN(fr, args) },
		// SameFloat64(a, b): identical as IEEE values (structural SMT equality: NaN same as NaN). Identical terms are
		// decided without the solver, which is what makes symbolic x symbolic products comparable (DESIGN §8 C05).
		"SameFloat64": func(fr *frame, args []value) value {
			a, aok := args[0].(sym)
			b, bok := args[1].(sym)
			if !aok && !bok {
				x, y := args[0].(float64), args[1].(float64)
				return x == y || (x != x && y != y)
			}
			if aok && bok && a.e == b.e {
				return true
			}
			return fr.i.x.mk("(= "+litE(args[0])+" "+litE(args[1])+")", sBool)
		},
		"LoadImage": func(fr *frame, args []value) value {
			// LoadImage(name string, root any): fills *root (a pointer to the wanted type) from the heap image
			return loadImage(fr, args[0].(string), args[1].(iface))
		},
	}
}

// event appends to the path's trace; symbolic arguments are rendered lazily from the model.
func (x *Explorer) event(kind string, args []value) {
	var b strings.Builder
	b.WriteString(kind)
	for _, a := range args {
		b.WriteByte(' ')
		v := a
		var t types.Type
		if it, ok := a.(iface); ok {
			v, t = it.v, it.t
		}
		switch v := v.(type) {
		case sym:
			ts := "u"
			if t != nil {
				if _, signed, ok := basicSort(t); ok && signed {
					ts = "s"
				}
			}
			if v.s == sBool {
				ts = "b"
			}
			b.WriteString("$" + v.e + ":" + ts + strconv.Itoa(v.s.bits()))
		case string:
			b.WriteString(v)
		default:
			b.WriteString(toString(v))
		}
	}
	x.events = append(x.events, b.String())
}

func lookupExternal(name string) externalFn {
	if ext := externals[name]; ext != nil {
		return ext
	}
	if strings.HasSuffix(name, "/zzkb.StepLog") {
		return func(fr *frame, args []value) value {
			d := readImage(filepath.Join(fr.i.prep.KBDir, args[0].(string)+".json"))
			out := []value{}
			for _, s := range d.Steps {
				out = append(out, s)
			}
			return out
		}
	}
	if strings.HasSuffix(name, "/zzkb.LoadLibrary") {
		return func(fr *frame, args []value) value {
			t := fr.fn.Signature.Results().At(0).Type()
			return importImage(fr, args[0].(string), t)
		}
	}
	if strings.Contains(name, verifSuffix) {
		return verifIntercept(name)
	}
	return nil
}
