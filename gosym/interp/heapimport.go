package interp

// Type-directed import of a heap image produced natively by /verif/native/kbdump
// (real builder, reflect+unsafe walk) into executor values.

import (
	"encoding/json"
	"fmt"
	"go/types"
	"os"
	"path/filepath"
	"strconv"
	"strings"
	"sync"

	"golang.org/x/tools/go/ssa"
)

type heapImage struct {
	Root    any              `json:"root"`
	Objects []map[string]any `json:"objects"`
	Steps   []string         `json:"steps"`
}

var imageCache sync.Map // path -> *heapImage

func readImage(path string) *heapImage {
	if v, ok := imageCache.Load(path); ok {
		return v.(*heapImage)
	}
	b, err := os.ReadFile(path)
	if err != nil {
		panic(pathEnd{kind: endUnsupported, msg: "INFRA: cannot read heap image: " + err.Error()})
	}
	var d heapImage
	if err := json.Unmarshal(b, &d); err != nil {
		panic(pathEnd{kind: endUnsupported, msg: "INFRA: bad heap image " + path + ": " + err.Error()})
	}
	imageCache.Store(path, &d)
	return &d
}

type importer struct {
	prog    *ssa.Program
	objects []map[string]any
	cells   map[int]*value
}

func infra(msg string) pathEnd {
	return pathEnd{kind: endUnsupported, msg: "INFRA: heap import: " + msg}
}

func (im *importer) namedType(s string) types.Type {
	i := strings.LastIndex(s, ".")
	if i < 0 {
		for _, b := range types.Typ {
			if b.Name() == s {
				return b
			}
		}
		panic(infra("unknown basic type " + s))
	}
	p := im.prog.ImportedPackage(s[:i])
	if p == nil {
		panic(infra("package not loaded: " + s[:i]))
	}
	m := p.Type(s[i+1:])
	if m == nil {
		panic(infra("type not found (the code under test no longer has it): " + s))
	}
	return m.Type()
}

func (im *importer) dynType(s string) types.Type {
	switch {
	case strings.HasPrefix(s, "*"):
		return types.NewPointer(im.dynType(s[1:]))
	case strings.HasPrefix(s, "[]"):
		return types.NewSlice(im.dynType(s[2:]))
	case strings.HasPrefix(s, "map[string]"):
		return types.NewMap(types.Typ[types.String], im.dynType(s[len("map[string]"):]))
	case s == "interface {}" || s == "interface{}" || s == "any":
		return types.NewInterfaceType(nil, nil)
	}
	return im.namedType(s)
}

func (im *importer) imp(j any, t types.Type) value {
	if isReflectValue(t) {
		if j == nil {
			return invalidValue()
		}
		m := j.(map[string]any)
		if !m["valid"].(bool) {
			return invalidValue()
		}
		dt := im.dynType(m["t"].(string))
		return makeReflectValue(dt, im.imp(m["v"], dt))
	}
	switch u := t.Underlying().(type) {
	case *types.Basic:
		if j == nil {
			return zero(t)
		}
		m := j.(map[string]any)
		switch u.Kind() {
		case types.String:
			return m["v"].(string)
		case types.Bool:
			return m["v"].(bool)
		case types.Float64:
			f, _ := strconv.ParseFloat(m["v"].(string), 64)
			return f
		case types.Float32:
			f, _ := strconv.ParseFloat(m["v"].(string), 64)
			return float32(f)
		case types.UnsafePointer:
			return zero(t)
		}
		if u.Info()&types.IsUnsigned != 0 {
			x, _ := strconv.ParseUint(m["v"].(string), 10, 64)
			return concreteOf(t, x)
		}
		x, _ := strconv.ParseInt(m["v"].(string), 10, 64)
		return concreteOf(t, uint64(x))
	case *types.Pointer:
		if j == nil {
			return (*value)(nil)
		}
		id := int(j.(map[string]any)["id"].(float64))
		if c, ok := im.cells[id]; ok {
			return c
		}
		c := new(value)
		im.cells[id] = c
		*c = im.imp(im.objects[id]["v"], u.Elem())
		return c
	case *types.Struct:
		st := make(structure, u.NumFields())
		var f map[string]any
		if j != nil {
			f, _ = j.(map[string]any)["f"].(map[string]any)
		}
		seen := 0
		for i := 0; i < u.NumFields(); i++ {
			fj, ok := f[u.Field(i).Name()]
			if ok {
				seen++
			}
			if !ok || (fj == nil && !nilable(u.Field(i).Type())) {
				st[i] = zero(u.Field(i).Type())
				continue
			}
			st[i] = im.imp(fj, u.Field(i).Type())
		}
		return st
	case *types.Slice:
		if j == nil {
			return []value(nil)
		}
		es := j.(map[string]any)["e"].([]any)
		out := make([]value, len(es))
		for i, e := range es {
			out[i] = im.imp(e, u.Elem())
		}
		return out
	case *types.Array:
		es := j.(map[string]any)["e"].([]any)
		out := make(array, len(es))
		for i, e := range es {
			out[i] = im.imp(e, u.Elem())
		}
		return out
	case *types.Map:
		if j == nil {
			return (*omap)(nil)
		}
		es := j.(map[string]any)["e"].([]any)
		m := makeMap(u.Key(), int64(len(es))).(*omap)
		for _, e := range es {
			kv := e.([]any)
			m.set(im.imp(kv[0], u.Key()), im.imp(kv[1], u.Elem()))
		}
		return m
	case *types.Interface:
		if j == nil {
			return iface{}
		}
		m := j.(map[string]any)
		dt := im.dynType(m["dyn"].(string))
		return iface{t: dt, v: im.imp(m["v"], dt)}
	case *types.Signature, *types.Chan:
		return zero(t)
	}
	panic(infra(fmt.Sprintf("unsupported type %v", t)))
}

func nilable(t types.Type) bool {
	switch t.Underlying().(type) {
	case *types.Pointer, *types.Slice, *types.Map, *types.Interface, *types.Signature, *types.Chan:
		return true
	}
	return false
}

// loadImage implements zzverif.LoadImage(name, &dst).
func loadImage(fr *frame, name string, root iface) value {
	pt, ok := root.t.Underlying().(*types.Pointer)
	if !ok {
		panic(infra("LoadImage needs a pointer destination"))
	}
	path := filepath.Join(fr.i.prep.KBDir, name+".json")
	d := readImage(path)
	im := &importer{prog: fr.i.prog, objects: d.Objects, cells: map[int]*value{}}
	v := im.imp(d.Root, pt.Elem())
	store(pt.Elem(), root.v.(*value), v)
	return nil
}

// importImage implements zzkb.LoadLibrary(name) under gosym.
func importImage(fr *frame, name string, t types.Type) value {
	path := filepath.Join(fr.i.prep.KBDir, name+".json")
	d := readImage(path)
	im := &importer{prog: fr.i.prog, objects: d.Objects, cells: map[int]*value{}}
	return im.imp(d.Root, t)
}
