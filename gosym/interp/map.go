// Copyright 2013 The Go Authors. All rights reserved.
// Use of this source code is governed by a BSD-style
// license that can be found in the LICENSE file.

package interp

// Maps of the interpreted program.
//
// gosym replaces both map representations of the stock interpreter by one
// insertion-ordered association table. Iteration order must be a function of
// the path's decisions only (paths are re-executed from their decision
// prefixes), which Go's own maps and pointer hashes do not give.

import (
	"go/token"
	"go/types"
)

type hashable interface {
	hash(t types.Type) int
	eq(t types.Type, x any) bool
}

type oent struct {
	k, v value
	live bool
}

type omap struct {
	keyType types.Type
	builtin bool          // keys compare with Go's == on the boxed value
	idx     map[value]int // builtin keys: key -> position in ents
	ents    []oent
	n       int
	nsym    int // live entries whose key is a byte-array string with symbolic bytes (never in idx; found by identity)
}

func sameSymString(a, b symString) bool {
	return len(a.bytes) == len(b.bytes) && len(a.bytes) > 0 && &a.bytes[0] == &b.bytes[0]
}

// resolveStrKey makes a string key with symbolic bytes usable: it is compared (forking) with every live key of the same
// length; the result is either the very key object already in the map or k itself, which is then known to be absent.
// A concrete key is likewise compared with the symbolic keys present.
func (fr *frame) resolveStrKey(m *omap, k value) value {
	if m == nil {
		return k
	}
	ks, isSym := k.(symString)
	if !isSym {
		if m.nsym == 0 {
			return k
		}
		if _, isStr := k.(string); !isStr {
			return k
		}
	}
	xp := fr.i.x
	for i := range m.ents {
		e := &m.ents[i]
		if !e.live {
			continue
		}
		es, eSym := e.k.(symString)
		if !isSym && !eSym {
			continue
		}
		if eSym && isSym && sameSymString(es, ks) {
			return e.k
		}
		if lenOf(e.k) != lenOf(k) {
			continue
		}
		eq := xp.symStringBinop(token.EQL, k, e.k)
		if b, ok := eq.(bool); ok {
			if b {
				return e.k
			}
			continue
		}
		if xp.decide(eq.(sym), "map-key-equals-existing") {
			return e.k
		}
	}
	return k
}

// makeMap returns an empty initialized map of key type kt.
func makeMap(kt types.Type, reserve int64) value {
	m := &omap{keyType: kt, builtin: usesBuiltinMap(kt)}
	if m.builtin {
		m.idx = make(map[value]int)
	}
	return m
}

func (m *omap) find(k value) int {
	if m == nil {
		return -1
	}
	if _, s := k.(sym); s {
		panic(unsupported("symbolic map key"))
	}
	if ks, isSS := k.(symString); isSS {
		for i := range m.ents {
			if es, ok := m.ents[i].k.(symString); ok && m.ents[i].live && sameSymString(es, ks) {
				return i
			}
		}
		return -1
	}
	if m.builtin {
		if i, ok := m.idx[k]; ok {
			return i
		}
		return -1
	}
	h := k.(hashable)
	for i := range m.ents {
		if m.ents[i].live && h.eq(m.keyType, m.ents[i].k) {
			return i
		}
	}
	return -1
}

func (m *omap) get(k value) (value, bool) {
	if i := m.find(k); i >= 0 {
		return m.ents[i].v, true
	}
	return nil, false
}

func (m *omap) set(k, v value) {
	if m == nil {
		panic("assignment to entry in nil map")
	}
	if i := m.find(k); i >= 0 {
		m.ents[i].v = v
		return
	}
	m.ents = append(m.ents, oent{k, v, true})
	if _, isSS := k.(symString); isSS {
		m.nsym++
	} else if m.builtin {
		m.idx[k] = len(m.ents) - 1
	}
	m.n++
}

func (m *omap) del(k value) {
	if i := m.find(k); i >= 0 {
		m.ents[i].live = false
		m.ents[i].v = nil
		if _, isSS := k.(symString); isSS {
			m.nsym--
		} else if m.builtin {
			delete(m.idx, k)
		}
		m.n--
	}
}

func (m *omap) len() int {
	if m == nil {
		return 0
	}
	return m.n
}

// keys returns the live keys in iteration order.
func (m *omap) keys() []value {
	if m == nil {
		return nil
	}
	out := make([]value, 0, m.n)
	for i := range m.ents {
		if m.ents[i].live {
			out = append(out, m.ents[i].k)
		}
	}
	return out
}

type omapIter struct {
	m    *omap
	i    int
	perm []int // optional explicit visiting order (indices into ents)
}

func (it *omapIter) next() tuple {
	if it.m == nil {
		return []value{false, nil, nil}
	}
	if it.perm != nil {
		for it.i < len(it.perm) {
			e := &it.m.ents[it.perm[it.i]]
			it.i++
			if e.live {
				return []value{true, e.k, e.v}
			}
		}
		return []value{false, nil, nil}
	}
	for it.i < len(it.m.ents) {
		e := &it.m.ents[it.i]
		it.i++
		if e.live {
			return []value{true, e.k, e.v}
		}
	}
	return []value{false, nil, nil}
}
