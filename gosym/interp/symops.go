package interp

// Glue between the stock instruction semantics and symbolic scalars.

import (
	"fmt"
	"go/token"
	"go/types"
	"runtime"

	"golang.org/x/tools/go/ssa"
)

const maxAlloc = 1 << 22 // elements; larger concrete allocations are not executed

const goMaxAlloc = 1 << 47 // Go's makeslice limit on 64-bit platforms (len*elemsize beyond it panics)

const maxCallDepth = 12000 // interpreted frames; deeper recursion ends the path (limit)

func (i *interpreter) classifyPanic(rp any) any {
	switch r := rp.(type) {
	case targetPanic:
		return rp
	case runtime.Error:
		if isInternal(r) {
			panic(unsupported("internal: " + r.Error() + stackNoteNow(i)))
		}
	case string:
		if !legitTargetPanic(r) {
			panic(unsupported("internal: " + r + stackNoteNow(i)))
		}
	default:
		panic(unsupported(fmt.Sprintf("internal: panic of type %T: %v", rp, rp) + stackNoteNow(i)))
	}
	return rp
}

func stackNoteNow(i *interpreter) string {
	if i.panicSnap == nil {
		i.panicSnap = append([]string{}, i.callStack...)
	}
	return stackNote(i)
}

func containsSym(v value) bool {
	switch v := v.(type) {
	case sym:
		return true
	case structure:
		for _, e := range v {
			if containsSym(e) {
				return true
			}
		}
	case array:
		for _, e := range v {
			if containsSym(e) {
				return true
			}
		}
	case iface:
		return containsSym(v.v)
	case symString:
		return true
	}
	return false
}

func symAwareBinop(fr *frame, instr *ssa.BinOp) value {
	a, b := fr.get(instr.X), fr.get(instr.Y)
	if isSym(a) || isSym(b) {
		return fr.i.x.symBinop(instr.Op, instr.X.Type(), instr.Y.Type(), a, b)
	}
	if _, ok := a.(symString); ok {
		return fr.i.x.symStringBinop(instr.Op, a, b)
	}
	if _, ok := b.(symString); ok {
		return fr.i.x.symStringBinop(instr.Op, a, b)
	}
	if (instr.Op == token.EQL || instr.Op == token.NEQ) && isReflectValue(instr.X.Type()) {
		// v == reflect.ValueOf(nil) and the like: the real comparison is on (type, pointer, flag) words
		ta, tb := rV2T(a).t, rV2T(b).t
		var r bool
		switch {
		case ta == nil || tb == nil:
			r = ta == nil && tb == nil
		case rVAddr(a) != nil || rVAddr(b) != nil:
			r = rVAddr(a) == rVAddr(b) && types.Identical(ta, tb)
		default:
			panic(unsupported("== on two valid, non-addressable reflect.Values"))
		}
		if instr.Op == token.NEQ {
			return !r
		}
		return r
	}
	if instr.Op == token.EQL || instr.Op == token.NEQ {
		switch a.(type) {
		case structure, array, iface:
			if containsSym(a) || containsSym(b) {
				r := fr.i.x.symEquals(instr.X.Type(), a, b)
				if instr.Op == token.NEQ {
					return fr.i.x.not(r)
				}
				return r
			}
		}
	}
	return binop(instr.Op, instr.X.Type(), a, b)
}

// symEquals is equals() over values that may contain symbolic leaves.
func (x *Explorer) symEquals(t types.Type, a, b value) value {
	switch a := a.(type) {
	case sym:
		return x.symBinop(token.EQL, t, t, a, b)
	case symString:
		return x.symStringBinop(token.EQL, a, b)
	case structure:
		st := t.Underlying().(*types.Struct)
		bs := b.(structure)
		var r value = true
		for i := 0; i < st.NumFields(); i++ {
			if st.Field(i).Name() == "_" {
				continue
			}
			r = x.and(r, x.symEquals(st.Field(i).Type(), a[i], bs[i]))
		}
		return r
	case array:
		et := t.Underlying().(*types.Array).Elem()
		bs := b.(array)
		var r value = true
		for i := range a {
			r = x.and(r, x.symEquals(et, a[i], bs[i]))
		}
		return r
	case iface:
		bi := b.(iface)
		if !sameType(a.t, bi.t) {
			return false
		}
		if a.t == nil {
			return true
		}
		return x.symEquals(a.t, a.v, bi.v)
	}
	if isSym(b) {
		return x.symBinop(token.EQL, t, t, a, b)
	}
	if _, ok := b.(symString); ok {
		return x.symStringBinop(token.EQL, a, b)
	}
	return equals(t, a, b)
}

func symAwareConv(fr *frame, dst, src types.Type, v value) value {
	switch v := v.(type) {
	case symString:
		return fr.i.x.convSymString(dst, v)
	case []value:
		// []byte -> string with symbolic bytes
		if b, ok := dst.Underlying().(*types.Basic); ok && b.Kind() == types.String {
			for _, e := range v {
				if isSym(e) {
					return symString{bytes: append([]value{}, v...)}
				}
			}
		}
	}
	return conv(dst, src, v)
}

// conc returns a concrete stand-in for a possibly symbolic integer (forking over its values).
func (fr *frame) conc(v value, why string) value {
	s, ok := v.(sym)
	if !ok {
		return v
	}
	u := fr.i.x.concretize(s, why+"@"+fr.pos())
	return signExtend(u, s.s)
}

func signExtend(u uint64, s ssort) value {
	switch s.bits() {
	case 8:
		return int64(int8(u))
	case 16:
		return int64(int16(u))
	case 32:
		return int64(int32(u))
	}
	return int64(u)
}

func (fr *frame) pos() string {
	if fr == nil || fr.fn == nil {
		return "?"
	}
	return fr.fn.String()
}

func (fr *frame) concKey(kt types.Type, k sym) value {
	if k.s == sStr {
		panic(unsupported("symbolic string as map key"))
	}
	u := fr.i.x.concretize(k, "map-key@"+fr.pos())
	return concreteOf(kt, u)
}

func lenOf(x value) int {
	switch x := x.(type) {
	case []value:
		return len(x)
	case array:
		return len(x)
	case *value:
		return len((*x).(array))
	case string:
		return len(x)
	case symString:
		return len(x.bytes)
	}
	panic(unsupported(fmt.Sprintf("lenOf(%T)", x)))
}

// symIndex resolves a symbolic index: forks on the bounds check, then over the in-range values.
func (fr *frame) symIndex(x value, idx value) value {
	s := idx.(sym)
	n := lenOf(x)
	xp := fr.i.x
	bits := s.s.bits()
	always := bits < 63 && uint64(n) >= uint64(1)<<uint(bits) && fr.symIdxUnsigned
	if !always {
		// compare in 64 bits: a negative signed index becomes a huge unsigned one, i.e. out of range
		w := s.e
		if bits < 64 {
			ext := "sign_extend"
			if fr.symIdxUnsigned {
				ext = "zero_extend"
			}
			w = fmt.Sprintf("((_ %s %d) %s)", ext, 64-bits, s.e)
		}
		in := xp.mk("(bvult "+w+" "+bvLit(uint64(n), 64)+")", sBool)
		if n == 0 || !xp.decide(in, "index-in-range") {
			panic(runtimeErr(fmt.Sprintf("runtime error: index out of range [symbolic] with length %d", n)))
		}
	}
	u := xp.concretize(s, "index@"+fr.pos())
	return int(u)
}

// symMake handles make([]T, n) with a symbolic length or capacity.
func (fr *frame) symMake(instr *ssa.MakeSlice, elem types.Type, capV, lenV value) (value, value) {
	xp := fr.i.x
	one := func(v value, what string) value {
		s, ok := v.(sym)
		if !ok {
			return v
		}
		if !s.s.isBV() {
			panic(unsupported("make with non-integer size"))
		}
		w := s.s.bits()
		neg := xp.mk("(bvslt "+s.e+" "+bvLit(0, w)+")", sBool)
		if xp.decide(neg, "make-negative") {
			panic(runtimeErr("runtime error: makeslice: " + what + " out of range"))
		}
		site := fr.i.prog.Fset.Position(instr.Pos()).String()
		if xp.allocLimit >= 0 {
			elemSize := fr.i.sizes.Sizeof(elem)
			if elemSize < 1 {
				elemSize = 1
			}
			// Go's makeslice panics (recoverably) when len*elemsize exceeds the address space limit
			goMax := int64(goMaxAlloc) / elemSize
			tooBig := xp.mk("(bvsgt "+s.e+" "+bvLit(uint64(goMax), w)+")", sBool)
			if xp.decide(tooBig, "make-beyond-go-maxalloc") {
				panic(runtimeErr("runtime error: makeslice: " + what + " out of range"))
			}
			lim := xp.allocLimit / elemSize
			ok := xp.mk("(bvsle "+s.e+" "+bvLit(uint64(lim), w)+")", sBool)
			// prefer a counterexample of 1..4 GiB: far beyond the bound, and allocatable when replayed natively
			xp.prefNeg = "(and (bvsge " + s.e + " " + bvLit(uint64((1<<30)/elemSize), w) + ") (bvsle " + s.e + " " + bvLit(uint64((1<<32)/elemSize), w) + "))"
			xp.assert("alloc-bounded:"+shortSite(site), ok)
			xp.allocSites[shortSite(site)]++
		} else {
			lim := int64(maxAlloc)
			ok := xp.mk("(bvsle "+s.e+" "+bvLit(uint64(lim), w)+")", sBool)
			if !xp.decide(ok, "make-within-executor-limit") {
				panic(pathEnd{kind: endOutside, msg: "symbolic allocation beyond the executor's limit at " + shortSite(site)})
			}
		}
		// explicit concretisation: harness-supplied representative values first, then solver-chosen ones
		for _, c := range xp.allocCands {
			eq := xp.mk("(= "+s.e+" "+bvLit(uint64(c), w)+")", sBool)
			if xp.decide(eq, "make-candidate") {
				return signExtend(uint64(c), s.s)
			}
		}
		// beyond the harness's representative sizes: two solver-chosen ones (explicit concretisation, DESIGN §8 C20;
		// the size assertion above is what covers all values)
		u := xp.concretizeN(s, "make@"+shortSite(site), 2, true)
		return signExtend(u, s.s)
	}
	lenV = one(lenV, "len")
	if capS, ok := capV.(sym); ok {
		if lS, ok2 := fr.get(instr.Len).(sym); ok2 && lS.e == capS.e {
			capV = lenV
		} else {
			capV = one(capV, "cap")
		}
	}
	return capV, lenV
}

func shortSite(s string) string {
	// keep "dir/file.go:line"
	n := 0
	for i := len(s) - 1; i >= 0; i-- {
		if s[i] == '/' {
			n++
			if n == 2 {
				s = s[i+1:]
				break
			}
		}
	}
	// strip column
	c := 0
	for i := len(s) - 1; i >= 0; i-- {
		if s[i] == ':' {
			c++
			if c == 1 {
				return s[:i]
			}
		}
	}
	return s
}

func (x *Explorer) bigAlloc(instr ssa.Instruction, n int64) {
	panic(pathEnd{kind: endOutside, msg: "a concrete allocation beyond the executor's limit is not executed"})
}

func buildOnDemand(i *interpreter, fn *ssa.Function) *ssa.Function {
	if fn.Pkg != nil {
		fn.Pkg.Build()
	} else if o := fn.Origin(); o != nil && o.Pkg != nil {
		o.Pkg.Build()
	}
	return fn
}
