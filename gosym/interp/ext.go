package interp

// Library functions that are not interpreted from their own SSA: either modelled here
// (exactly, or symbolically) or called natively when every argument is concrete.
// Every entry used on a path is recorded in the evidence ("stubs_and_models").

import (
	"fmt"
	"go/token"
	"go/types"
	"math"
	"reflect"
	"regexp"
	"sort"
	"strconv"
	"strings"
	"unicode"
	"unicode/utf8"

	"golang.org/x/tools/go/ssa"
)

type externalFn func(fr *frame, args []value) value

// Key strings are from Function.String().
var externals = make(map[string]externalFn)

// nativeWhenConcrete: called natively iff every argument is concrete; otherwise the
// function's own SSA (or "unsupported") is used.
var nativeWhenConcrete = make(map[string]func(fr *frame, args []value) (value, bool))

func init() {
	for k, v := range map[string]externalFn{
		"(reflect.Value).Bool":          ext۰reflect۰Value۰Bool,
		"(reflect.Value).CanAddr":       ext۰reflect۰Value۰CanAddr,
		"(reflect.Value).CanSet":        ext۰reflect۰Value۰CanSet,
		"(reflect.Value).CanInterface":  ext۰reflect۰Value۰CanInterface,
		"(reflect.Value).Elem":          ext۰reflect۰Value۰Elem,
		"(reflect.Value).Field":         ext۰reflect۰Value۰Field,
		"(reflect.Value).FieldByName":   ext۰reflect۰Value۰FieldByName,
		"(reflect.Value).Float":         ext۰reflect۰Value۰Float,
		"(reflect.Value).Complex":       ext۰reflect۰Value۰Complex,
		"(reflect.Value).Bytes":         ext۰reflect۰Value۰Bytes,
		"(reflect.Value).Index":         ext۰reflect۰Value۰Index,
		"(reflect.Value).Int":           ext۰reflect۰Value۰Int,
		"(reflect.Value).Interface":     ext۰reflect۰Value۰Interface,
		"(reflect.Value).IsNil":         ext۰reflect۰Value۰IsNil,
		"(reflect.Value).IsZero":        ext۰reflect۰Value۰IsZero,
		"(reflect.Value).IsValid":       ext۰reflect۰Value۰IsValid,
		"(reflect.Value).Kind":          ext۰reflect۰Value۰Kind,
		"(reflect.Value).Len":           ext۰reflect۰Value۰Len,
		"(reflect.Value).Cap":           ext۰reflect۰Value۰Cap,
		"(reflect.Value).MapIndex":      ext۰reflect۰Value۰MapIndex,
		"(reflect.Value).SetMapIndex":   ext۰reflect۰Value۰SetMapIndex,
		"(reflect.Value).MapKeys":       ext۰reflect۰Value۰MapKeys,
		"(reflect.Value).NumField":      ext۰reflect۰Value۰NumField,
		"(reflect.Value).NumMethod":     ext۰reflect۰Value۰NumMethod,
		"(reflect.Value).Method":        ext۰reflect۰Value۰Method,
		"(reflect.Value).MethodByName":  ext۰reflect۰Value۰MethodByName,
		"(reflect.Value).Call":          ext۰reflect۰Value۰Call,
		"(reflect.Value).Convert":       ext۰reflect۰Value۰Convert,
		"(reflect.Value).Addr":          ext۰reflect۰Value۰Addr,
		"(reflect.Value).Pointer":       ext۰reflect۰Value۰Pointer,
		"(reflect.Value).Set":           ext۰reflect۰Value۰Set,
		"(reflect.Value).SetInt":        ext۰reflect۰Value۰SetInt,
		"(reflect.Value).SetUint":       ext۰reflect۰Value۰SetUint,
		"(reflect.Value).SetFloat":      ext۰reflect۰Value۰SetFloat,
		"(reflect.Value).SetBool":       ext۰reflect۰Value۰SetBool,
		"(reflect.Value).SetString":     ext۰reflect۰Value۰SetString,
		"(reflect.Value).String":        ext۰reflect۰Value۰String,
		"(reflect.Value).Type":          ext۰reflect۰Value۰Type,
		"(reflect.Value).Uint":          ext۰reflect۰Value۰Uint,
		"(reflect.error).Error":         ext۰reflect۰error۰Error,
		"(reflect.rtype).Bits":          ext۰reflect۰rtype۰Bits,
		"(reflect.rtype).Elem":          ext۰reflect۰rtype۰Elem,
		"(reflect.rtype).Key":           ext۰reflect۰rtype۰Key,
		"(reflect.rtype).Field":         ext۰reflect۰rtype۰Field,
		"(reflect.rtype).FieldByName":   ext۰reflect۰rtype۰FieldByName,
		"(reflect.rtype).In":            ext۰reflect۰rtype۰In,
		"(reflect.rtype).Kind":          ext۰reflect۰rtype۰Kind,
		"(reflect.rtype).NumField":      ext۰reflect۰rtype۰NumField,
		"(reflect.rtype).NumIn":         ext۰reflect۰rtype۰NumIn,
		"(reflect.rtype).NumMethod":     ext۰reflect۰rtype۰NumMethod,
		"(reflect.rtype).Method":        ext۰reflect۰rtype۰Method,
		"(reflect.rtype).MethodByName":  ext۰reflect۰rtype۰MethodByName,
		"(reflect.rtype).IsVariadic":    ext۰reflect۰rtype۰IsVariadic,
		"(reflect.rtype).NumOut":        ext۰reflect۰rtype۰NumOut,
		"(reflect.rtype).Out":           ext۰reflect۰rtype۰Out,
		"(reflect.rtype).Size":          ext۰reflect۰rtype۰Size,
		"(reflect.rtype).String":        ext۰reflect۰rtype۰String,
		"(reflect.rtype).Name":          ext۰reflect۰rtype۰Name,
		"(reflect.rtype).PkgPath":       ext۰reflect۰rtype۰PkgPath,
		"(reflect.rtype).AssignableTo":  ext۰reflect۰rtype۰AssignableTo,
		"(reflect.rtype).ConvertibleTo": ext۰reflect۰rtype۰ConvertibleTo,
		"(reflect.rtype).Implements":    ext۰reflect۰rtype۰Implements,
		"(reflect.rtype).Comparable":    ext۰reflect۰rtype۰Comparable,
		"(reflect.rtype).Len":           ext۰reflect۰rtype۰Len,
		"(reflect.Kind).String":         func(fr *frame, args []value) value { return reflect.Kind(args[0].(uint)).String() },
		"reflect.New":                   ext۰reflect۰New,
		"reflect.SliceOf":               ext۰reflect۰SliceOf,
		"reflect.TypeOf":                ext۰reflect۰TypeOf,
		"reflect.ValueOf":               ext۰reflect۰ValueOf,
		"reflect.Zero":                  ext۰reflect۰Zero,
		"reflect.Append":                ext۰reflect۰Append,
		"reflect.DeepEqual":             ext۰reflect۰DeepEqual,

		"math.Float32bits":     extFloatBits(32),
		"math.Float64bits":     extFloatBits(64),
		"math.Float32frombits": extFloatFromBits(32),
		"math.Float64frombits": extFloatFromBits(64),
		"math.IsNaN":           extIsNaN,
		"math.IsInf":           extIsInf,

		"math.Floor":       extFPRound("RTN", math.Floor),
		"math.Ceil":        extFPRound("RTP", math.Ceil),
		"math.Trunc":       extFPRound("RTZ", math.Trunc),
		"math.Round":       extFPRound("RNA", math.Round),
		"math.RoundToEven": extFPRound("RNE", math.RoundToEven),
		"math.Abs": func(fr *frame, args []value) value {
			if f, ok := args[0].(sym); ok {
				return fr.i.x.mk("(fp.abs "+f.e+")", sF64)
			}
			return math.Abs(args[0].(float64))
		},
		"math.Sqrt": func(fr *frame, args []value) value {
			if f, ok := args[0].(sym); ok {
				return fr.i.x.mk("(fp.sqrt RNE "+f.e+")", sF64)
			}
			return math.Sqrt(args[0].(float64))
		},
		"strings.IndexByte":                extIndexByte,
		"internal/bytealg.IndexByteString": extIndexByte,
		"bytes.IndexByte":                  extIndexByte,
		"internal/bytealg.IndexByte":       extIndexByte,
		"fmt.Sprintf":                      extSprintf,
		"fmt.Sprint":                       extSprint,
		"fmt.Errorf":                       extErrorf,
		"fmt.Println":                      func(fr *frame, args []value) value { return tuple{0, iface{}} },
		"fmt.Printf":                       func(fr *frame, args []value) value { return tuple{0, iface{}} },
		"fmt.Print":                        func(fr *frame, args []value) value { return tuple{0, iface{}} },
		"errors.Is":                        extErrorsIs,

		"(*strings.Builder).WriteString": extBuilderWriteString,
		"(*strings.Builder).WriteByte":   extBuilderWriteByte,
		"(*strings.Builder).WriteRune":   extBuilderWriteRune,
		"(*strings.Builder).String":      extBuilderString,
		"(*strings.Builder).Len":         extBuilderLen,
		"(*strings.Builder).Reset":       func(fr *frame, args []value) value { (*args[0].(*value)).(structure)[1] = nil; return nil },
		"(*strings.Builder).Grow":        func(fr *frame, args []value) value { return nil },

		"sort.SliceStable": extSortSlice,
		"sort.Slice":       extSortSlice,
		"sort.Strings":     extSortStrings,

		"(*sync.Mutex).Lock":      extNop,
		"(*sync.Mutex).Unlock":    extNop,
		"(*sync.RWMutex).Lock":    extNop,
		"(*sync.RWMutex).Unlock":  extNop,
		"(*sync.RWMutex).RLock":   extNop,
		"(*sync.RWMutex).RUnlock": extNop,

		"time.Now":         extTimeNow,
		"time.runtimeNano": func(fr *frame, args []value) value { return int64(1) },
		// (*Location).get loads the system's zone database for Local on first use (environment); modelled: Local is a
		// zone-less location, i.e. behaves as UTC (native replays run with TZ=UTC)
		"(*time.Location).get": func(fr *frame, args []value) value {
			if l, _ := args[0].(*value); l != nil {
				return l
			}
			if g, ok := fr.i.prog.ImportedPackage("time").Members["utcLoc"].(*ssa.Global); ok {
				return fr.get(g)
			}
			return args[0]
		},
		"time.Since":      func(fr *frame, args []value) value { return int64(0) },
		"(time.Time).Sub": extTimeSubNative,

		"github.com/google/uuid.NewString": extUUID,
		"github.com/google/uuid.New":       extUUIDNew,
		"(github.com/google/uuid.UUID).String": func(fr *frame, args []value) value {
			a := args[0].(array)
			b := make([]byte, len(a))
			for i := range a {
				b[i] = a[i].(uint8)
			}
			return fmt.Sprintf("id-%x", b)
		},
		"runtime.GOMAXPROCS": func(fr *frame, args []value) value { return 1 },
		"runtime.Gosched":    extNop,
		"os.Getenv":          func(fr *frame, args []value) value { return "" },
	} {
		externals[k] = v
	}

	// native-when-concrete bridges
	for name, f := range map[string]any{
		"strings.Contains": strings.Contains, "strings.HasPrefix": strings.HasPrefix, "strings.HasSuffix": strings.HasSuffix,
		"strings.Index": strings.Index, "strings.LastIndex": strings.LastIndex, "strings.IndexByte": strings.IndexByte,
		"strings.Split": strings.Split, "strings.Join": strings.Join, "strings.Replace": strings.Replace, "strings.ReplaceAll": strings.ReplaceAll,
		"strings.ToLower": strings.ToLower, "strings.ToUpper": strings.ToUpper, "strings.TrimSpace": strings.TrimSpace,
		"strings.Trim": strings.Trim, "strings.TrimLeft": strings.TrimLeft, "strings.TrimRight": strings.TrimRight,
		"strings.TrimPrefix": strings.TrimPrefix, "strings.TrimSuffix": strings.TrimSuffix, "strings.Compare": strings.Compare,
		"strings.Count": strings.Count, "strings.EqualFold": strings.EqualFold, "strings.Repeat": strings.Repeat,
		"strings.Fields": strings.Fields, "strings.Title": strings.Title, "strings.IndexAny": strings.IndexAny,
		"strings.ContainsAny": strings.ContainsAny, "strings.ContainsRune": strings.ContainsRune, "strings.IndexRune": strings.IndexRune,
		"strconv.Itoa": strconv.Itoa, "strconv.Atoi": strconv.Atoi, "strconv.ParseInt": strconv.ParseInt, "strconv.ParseUint": strconv.ParseUint,
		"strconv.ParseFloat": strconv.ParseFloat, "strconv.ParseBool": strconv.ParseBool, "strconv.FormatInt": strconv.FormatInt,
		"strconv.FormatUint": strconv.FormatUint, "strconv.FormatFloat": strconv.FormatFloat, "strconv.FormatBool": strconv.FormatBool,
		"strconv.Quote": strconv.Quote, "strconv.Unquote": strconv.Unquote,
		"regexp.MatchString":             regexp.MatchString,
		"unicode/utf8.RuneCountInString": utf8.RuneCountInString, "unicode/utf8.ValidString": utf8.ValidString,
		"unicode/utf8.DecodeRuneInString": utf8.DecodeRuneInString, "unicode/utf8.RuneLen": utf8.RuneLen,
		"unicode.IsSpace": unicode.IsSpace, "unicode.IsDigit": unicode.IsDigit, "unicode.IsLetter": unicode.IsLetter,
		"unicode.IsUpper": unicode.IsUpper, "unicode.IsLower": unicode.IsLower, "unicode.ToUpper": unicode.ToUpper, "unicode.ToLower": unicode.ToLower,
		"unicode.IsPrint": unicode.IsPrint,
		"math.Abs":        math.Abs, "math.Pow": math.Pow,
		"math.Mod": math.Mod, "math.Log": math.Log, "math.Log2": math.Log2,
		"math.Log10": math.Log10, "math.Exp": math.Exp, "math.Max": math.Max, "math.Min": math.Min, "math.Inf": math.Inf, "math.NaN": math.NaN,
		"math.Sin": math.Sin, "math.Cos": math.Cos, "math.Tan": math.Tan,
	} {
		nativeWhenConcrete[name] = bridge(f)
	}
}

func extNop(fr *frame, args []value) value { return nil }

// ---------------------------------------------------------------- native bridge

func allConcrete(args []value) bool {
	for _, a := range args {
		switch a := a.(type) {
		case sym, symString:
			return false
		case []value:
			for _, e := range a {
				if isSym(e) {
					return false
				}
				if _, ok := e.(symString); ok {
					return false
				}
			}
		}
	}
	return true
}

func toNative(v value, t reflect.Type) (reflect.Value, bool) {
	switch t.Kind() {
	case reflect.String:
		s, ok := v.(string)
		return reflect.ValueOf(s), ok
	case reflect.Bool, reflect.Int, reflect.Int8, reflect.Int16, reflect.Int32, reflect.Int64, reflect.Uint, reflect.Uint8, reflect.Uint16,
		reflect.Uint32, reflect.Uint64, reflect.Float32, reflect.Float64:
		rv := reflect.ValueOf(v)
		if !rv.IsValid() || !rv.Type().ConvertibleTo(t) || rv.Kind() != t.Kind() {
			return reflect.Value{}, false
		}
		return rv.Convert(t), true
	case reflect.Slice:
		sv, ok := v.([]value)
		if !ok {
			return reflect.Value{}, false
		}
		out := reflect.MakeSlice(t, len(sv), len(sv))
		for i, e := range sv {
			ne, ok := toNative(e, t.Elem())
			if !ok {
				return reflect.Value{}, false
			}
			out.Index(i).Set(ne)
		}
		return out, true
	}
	return reflect.Value{}, false
}

func fromNative(fr *frame, rv reflect.Value) value {
	switch rv.Kind() {
	case reflect.Slice:
		if rv.IsNil() {
			return []value(nil)
		}
		out := make([]value, rv.Len())
		for i := range out {
			out[i] = fromNative(fr, rv.Index(i))
		}
		return out
	case reflect.Interface:
		if rv.IsNil() {
			return iface{}
		}
		if e, ok := rv.Interface().(error); ok {
			return iface{t: errorType, v: e.Error()}
		}
		panic(unsupported("native bridge: interface result"))
	}
	return rv.Interface()
}

func bridge(f any) func(fr *frame, args []value) (value, bool) {
	fv := reflect.ValueOf(f)
	ft := fv.Type()
	return func(fr *frame, args []value) (value, bool) {
		if !allConcrete(args) || len(args) != ft.NumIn() {
			return nil, false
		}
		in := make([]reflect.Value, len(args))
		for i, a := range args {
			nv, ok := toNative(a, ft.In(i))
			if !ok {
				return nil, false
			}
			in[i] = nv
		}
		out := fv.Call(in)
		switch len(out) {
		case 0:
			return nil, true
		case 1:
			return fromNative(fr, out[0]), true
		}
		t := make(tuple, len(out))
		for i := range out {
			t[i] = fromNative(fr, out[i])
		}
		return t, true
	}
}

// ---------------------------------------------------------------- math bit casts

func extFloatBits(w int) externalFn {
	return func(fr *frame, args []value) value {
		switch f := args[0].(type) {
		case float64:
			return math.Float64bits(f)
		case float32:
			return math.Float32bits(f)
		case sym:
			// fresh bit-vector b with to_fp(b) = f (portable; NaN payload left open)
			xp := fr.i.x
			xp.uid++
			name := fmt.Sprintf("fb%d_%d", xp.nvars, xp.uid)
			xp.perm(fmt.Sprintf("(declare-const %s (_ BitVec %d))", name, w))
			if w == 64 {
				xp.perm("(assert (= ((_ to_fp 11 53) " + name + ") " + f.e + "))")
				return sym{name, sBV64}
			}
			xp.perm("(assert (= ((_ to_fp 8 24) " + name + ") " + f.e + "))")
			return sym{name, sBV32}
		}
		panic(unsupported("Float bits"))
	}
}

func extFloatFromBits(w int) externalFn {
	return func(fr *frame, args []value) value {
		switch b := args[0].(type) {
		case uint64:
			return math.Float64frombits(b)
		case uint32:
			return math.Float32frombits(b)
		case sym:
			if w == 64 {
				return fr.i.x.mk("((_ to_fp 11 53) "+b.e+")", sF64)
			}
			return fr.i.x.mk("((_ to_fp 8 24) "+b.e+")", sF32)
		}
		panic(unsupported("Float frombits"))
	}
}

// extFPRound: math.Floor/Ceil/Trunc/Round on a symbolic float = fp.roundToIntegral with the matching rounding mode.
func extFPRound(mode string, native func(float64) float64) externalFn {
	return func(fr *frame, args []value) value {
		if f, ok := args[0].(sym); ok {
			return fr.i.x.mk("(fp.roundToIntegral "+mode+" "+f.e+")", sF64)
		}
		return native(args[0].(float64))
	}
}

func extIsNaN(fr *frame, args []value) value {
	switch f := args[0].(type) {
	case float64:
		return math.IsNaN(f)
	case sym:
		return fr.i.x.mk("(fp.isNaN "+f.e+")", sBool)
	}
	panic(unsupported("math.IsNaN"))
}

func extIsInf(fr *frame, args []value) value {
	switch f := args[0].(type) {
	case float64:
		return math.IsInf(f, args[1].(int))
	case sym:
		sign := args[1].(int)
		switch {
		case sign > 0:
			return fr.i.x.mk("(and (fp.isInfinite "+f.e+") (fp.isPositive "+f.e+"))", sBool)
		case sign < 0:
			return fr.i.x.mk("(and (fp.isInfinite "+f.e+") (fp.isNegative "+f.e+"))", sBool)
		}
		return fr.i.x.mk("(fp.isInfinite "+f.e+")", sBool)
	}
	panic(unsupported("math.IsInf"))
}

// ---------------------------------------------------------------- fmt

// nativeArg renders an interpreter value as something fmt can print sensibly.
func nativeArg(fr *frame, v value, depth int) any {
	switch v := v.(type) {
	case iface:
		if v.t == nil {
			return nil
		}
		if v.t == errorType {
			return fmt.Errorf("%s", v.v.(string))
		}
		if depth < 4 {
			for _, m := range []string{"Error", "String"} {
				if fn := lookupMethodByName(fr, v.t, m); fn != nil && fn.Signature.Params().Len() == 0 && fn.Signature.Results().Len() == 1 {
					if b, ok := fn.Signature.Results().At(0).Type().Underlying().(*types.Basic); ok && b.Kind() == types.String {
						r := call(fr.i, fr, token.NoPos, fn, []value{v.v})
						if s, ok := r.(string); ok {
							if m == "Error" {
								return fmt.Errorf("%s", s)
							}
							return strVal(s)
						}
						return "<sym-string>"
					}
				}
			}
		}
		return nativeArg(fr, v.v, depth+1)
	case sym:
		return symPlaceholder("<sym:" + v.e + ">")
	case symString:
		return symPlaceholder("<symstring>")
	case *value:
		if v == nil {
			return nil
		}
		return fmt.Sprintf("&%v", toString(*v))
	case structure, array, []value, *omap, tuple:
		return strVal(toString(v))
	case rtype:
		return strVal(typeString(v.t))
	}
	return v
}

type strVal string

func (s strVal) String() string { return string(s) }

type symPlaceholder string

func (s symPlaceholder) String() string                { return string(s) }
func (s symPlaceholder) Format(f fmt.State, verb rune) { f.Write([]byte(string(s))) }

func lookupMethodByName(fr *frame, t types.Type, name string) *ssa.Function {
	ms := fr.i.prog.MethodSets.MethodSet(t)
	for i := 0; i < ms.Len(); i++ {
		if ms.At(i).Obj().Name() == name {
			return fr.i.prog.MethodValue(ms.At(i))
		}
	}
	return nil
}

func nativeArgs(fr *frame, vs []value) []any {
	out := make([]any, len(vs))
	for i, v := range vs {
		out[i] = nativeArg(fr, v, 0)
	}
	return out
}

func extSprintf(fr *frame, args []value) value {
	return fmt.Sprintf(args[0].(string), nativeArgs(fr, args[1].([]value))...)
}

func extSprint(fr *frame, args []value) value {
	return fmt.Sprint(nativeArgs(fr, args[0].([]value))...)
}

// newErrorString builds a real *errors.errorString so that its Error method runs from SSA.
func newErrorValue(fr *frame, msg string) value {
	ep := fr.i.prog.ImportedPackage("errors")
	if ep == nil {
		return iface{t: errorType, v: msg}
	}
	t := ep.Type("errorString").Type()
	cell := value(structure{msg})
	return iface{t: types.NewPointer(t), v: &cell}
}

func extErrorf(fr *frame, args []value) value {
	format := args[0].(string)
	vs := args[1].([]value)
	msg := fmt.Sprintf(strings.ReplaceAll(format, "%w", "%v"), nativeArgs(fr, vs)...)
	// %w: keep the wrapped error reachable for errors.Is / Unwrap
	if i := strings.Index(format, "%w"); i >= 0 {
		// which argument does the %w consume?
		n := 0
		for j := 0; j < i; j++ {
			if format[j] == '%' {
				if j+1 < len(format) && format[j+1] == '%' {
					j++
					continue
				}
				n++
			}
		}
		if n < len(vs) {
			if w, ok := vs[n].(iface); ok && w.t != nil {
				if fp := fr.i.prog.ImportedPackage("fmt"); fp != nil {
					if wt := fp.Type("wrapError"); wt != nil {
						cell := value(structure{msg, w})
						return iface{t: types.NewPointer(wt.Type()), v: &cell}
					}
				}
			}
		}
	}
	return newErrorValue(fr, msg)
}

func extErrorsIs(fr *frame, args []value) value {
	err, target := args[0].(iface), args[1].(iface)
	for depth := 0; depth < 50; depth++ {
		if err.t == nil {
			return target.t == nil
		}
		if sameType(err.t, target.t) && types.Comparable(err.t) && !containsSym(err.v) && !containsSym(target.v) {
			if equals(err.t, err.v, target.v) {
				return true
			}
		}
		if fn := lookupMethodByName(fr, err.t, "Is"); fn != nil && fn.Signature.Params().Len() == 1 {
			if r, ok := call(fr.i, fr, token.NoPos, fn, []value{err.v, target}).(bool); ok && r {
				return true
			}
		}
		fn := lookupMethodByName(fr, err.t, "Unwrap")
		if fn == nil || fn.Signature.Results().Len() != 1 {
			return false
		}
		r := call(fr.i, fr, token.NoPos, fn, []value{err.v})
		ni, ok := r.(iface)
		if !ok {
			return false // Unwrap() []error not followed
		}
		err = ni
	}
	return false
}

// ---------------------------------------------------------------- strings.Builder
// The builder's buf field (index 1) holds a Go string or a symString.

func builderCell(args []value) *value {
	st := (*args[0].(*value)).(structure)
	return &st[1]
}

func builderGet(c *value) value {
	switch v := (*c).(type) {
	case string, symString:
		return v
	}
	return ""
}

func concatStr(fr *frame, a, b value) value {
	as, ok1 := a.(string)
	bs, ok2 := b.(string)
	if ok1 && ok2 {
		return as + bs
	}
	if sa, ok := a.(sym); ok && sa.s == sStr {
		return fr.i.x.mk("(str.++ "+sa.e+" "+litE(b)+")", sStr)
	}
	if sb, ok := b.(sym); ok && sb.s == sStr {
		return fr.i.x.mk("(str.++ "+litE(a)+" "+sb.e+")", sStr)
	}
	return fr.i.x.symStringBinop(token.ADD, a, b)
}

func strLen(fr *frame, s value) value {
	switch s := s.(type) {
	case string:
		return len(s)
	case symString:
		return len(s.bytes)
	case sym:
		return fr.i.x.mk("((_ int2bv 64) (str.len "+s.e+"))", sBV64)
	}
	panic(unsupported("strLen"))
}

func extBuilderWriteString(fr *frame, args []value) value {
	c := builderCell(args)
	*c = concatStr(fr, builderGet(c), args[1])
	return tuple{strLen(fr, args[1]), iface{}}
}

func extBuilderWriteByte(fr *frame, args []value) value {
	c := builderCell(args)
	if b, ok := args[1].(uint8); ok {
		*c = concatStr(fr, builderGet(c), string([]byte{b}))
	} else {
		*c = concatStr(fr, builderGet(c), symString{bytes: []value{args[1]}})
	}
	return iface{}
}

func extBuilderWriteRune(fr *frame, args []value) value {
	c := builderCell(args)
	r, ok := args[1].(int32)
	if !ok {
		panic(unsupported("WriteRune of a symbolic rune"))
	}
	s := string(rune(r))
	*c = concatStr(fr, builderGet(c), s)
	return tuple{len(s), iface{}}
}

func extBuilderString(fr *frame, args []value) value { return builderGet(builderCell(args)) }
func extBuilderLen(fr *frame, args []value) value    { return strLen(fr, builderGet(builderCell(args))) }

// ---------------------------------------------------------------- sort

// extSortSlice is a stable insertion sort that calls the real less closure
// (exact for any strict weak order). A symbolic less result forks.
func extSortSlice(fr *frame, args []value) value {
	s := args[0].(iface).v.([]value)
	less := args[1]
	for i := 1; i < len(s); i++ {
		for j := i; j > 0; j-- {
			r := call(fr.i, fr, token.NoPos, less, []value{j, j - 1})
			var lt bool
			switch r := r.(type) {
			case bool:
				lt = r
			case sym:
				lt = fr.i.x.decide(r, "sort-less")
			}
			if !lt {
				break
			}
			s[j], s[j-1] = s[j-1], s[j]
		}
	}
	return nil
}

func extSortStrings(fr *frame, args []value) value {
	x := args[0].([]value)
	sort.SliceStable(x, func(i, j int) bool { return x[i].(string) < x[j].(string) })
	return nil
}

// ---------------------------------------------------------------- environment

func extTimeNow(fr *frame, args []value) value {
	t := zero(fr.i.prog.ImportedPackage("time").Type("Time").Type()).(structure)
	x := fr.i.x
	if !x.symClock {
		return t
	}
	// environment: an arbitrary non-decreasing instant (seconds since year 1 in ext, no monotonic reading, UTC)
	x.nclock++
	now := x.fresh(fmt.Sprintf("clock#%d", x.nclock), sBV64, "int64")
	lo := bvLit(63000000000, 64) // about year 1997 .. 2300: keeps Unix() arithmetic far from overflow
	hi := bvLit(72000000000, 64)
	x.perm("(assert (and (bvsge " + now.e + " " + lo + ") (bvsle " + now.e + " " + hi + ")))")
	if x.lastClock != "" {
		x.perm("(assert (bvsge " + now.e + " " + x.lastClock + "))")
	}
	x.lastClock = now.e
	t[0] = uint64(0) // wall
	t[1] = now       // ext
	return t
}

func extTimeSubNative(fr *frame, args []value) value {
	// durations are only logged by the code under test (engine, IndexVariables): an arbitrary constant
	return int64(0)
}

func extUUID(fr *frame, args []value) value {
	fr.i.idCounter++
	return fmt.Sprintf("id-%d", fr.i.idCounter)
}

func extUUIDNew(fr *frame, args []value) value {
	fr.i.idCounter++
	a := make(array, 16)
	for k := range a {
		a[k] = uint8(0)
	}
	a[14] = uint8(fr.i.idCounter >> 8)
	a[15] = uint8(fr.i.idCounter)
	return a
}

// extIndexByte: first position of byte c in a string / byte slice whose bytes may be symbolic (forks per position).
func extIndexByte(fr *frame, args []value) value {
	var bs []value
	switch s := args[0].(type) {
	case string:
		if c, ok := args[1].(uint8); ok {
			return strings.IndexByte(s, c)
		}
		bs, _ = toBytes(s)
	case symString:
		bs = s.bytes
	case []value:
		bs = s
	default:
		panic(unsupported(fmt.Sprintf("IndexByte on %T", s)))
	}
	for i, b := range bs {
		switch eq := fr.i.x.byteEq(b, args[1]).(type) {
		case bool:
			if eq {
				return i
			}
		case sym:
			if fr.i.x.decide(eq, "index-byte") {
				return i
			}
		}
	}
	return -1
}

// Package-level logging functions of logrus write to a standard logger whose initialiser the executor does not run;
// logging is environment (empty bodies), except the ones that end the process or panic, which stay unmodelled.
func init() {
	for _, n := range []string{"Trace", "Debug", "Info", "Print", "Warn", "Warning", "Error"} {
		for _, suf := range []string{"", "f", "ln"} {
			externals["github.com/sirupsen/logrus."+n+suf] = func(fr *frame, args []value) value { return nil }
		}
	}
}

// bytealg.Count / CountString and CompareString are assembly: modelled on byte-array strings by forking per byte.
func extCountByte(fr *frame, args []value) value {
	bs, ok := toBytes(args[0])
	if !ok {
		if v, isSlice := args[0].([]value); isSlice {
			bs = v
		} else {
			panic(unsupported(fmt.Sprintf("bytealg.Count on %T", args[0])))
		}
	}
	n := 0
	for _, b := range bs {
		switch eq := fr.i.x.byteEq(b, args[1]).(type) {
		case bool:
			if eq {
				n++
			}
		case sym:
			if fr.i.x.decide(eq, "count-byte") {
				n++
			}
		}
	}
	return n
}

func extCompareString(fr *frame, args []value) value {
	a, b := args[0], args[1]
	if as, ok := a.(string); ok {
		if bs, ok := b.(string); ok {
			return strings.Compare(as, bs)
		}
	}
	x := fr.i.x
	dec := func(v value, why string) bool {
		switch v := v.(type) {
		case bool:
			return v
		case sym:
			return x.decide(v, why)
		}
		panic(unsupported("compare-string"))
	}
	if dec(x.symStringBinop(token.EQL, a, b), "compare-string-eq") {
		return 0
	}
	if dec(x.symStringBinop(token.LSS, a, b), "compare-string-lt") {
		return -1
	}
	return 1
}

func init() {
	externals["internal/bytealg.CountString"] = extCountByte
	externals["internal/bytealg.Count"] = extCountByte
	externals["internal/bytealg.CompareString"] = extCompareString
}
