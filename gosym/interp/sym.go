package interp

// Symbolic scalars: SMT-LIB terms flowing through the interpreter's value domain.
//
// A sym is an SMT term (by name: every composite term is given a name with
// define-fun in the path's solver context, so terms are DAG-shared) plus its sort.
// Signedness is not part of the sort: it comes from the static Go type at each use.

import (
	"fmt"
	"go/token"
	"go/types"
	"math"
	"strings"
)

type ssort uint8

const (
	sBool ssort = iota
	sBV8
	sBV16
	sBV32
	sBV64
	sF32
	sF64
	sStr
)

func (s ssort) smt() string {
	switch s {
	case sBool:
		return "Bool"
	case sBV8:
		return "(_ BitVec 8)"
	case sBV16:
		return "(_ BitVec 16)"
	case sBV32:
		return "(_ BitVec 32)"
	case sBV64:
		return "(_ BitVec 64)"
	case sF32:
		return "(_ FloatingPoint 8 24)"
	case sF64:
		return "(_ FloatingPoint 11 53)"
	case sStr:
		return "String"
	}
	panic("bad sort")
}

func (s ssort) bits() int {
	switch s {
	case sBV8:
		return 8
	case sBV16:
		return 16
	case sBV32, sF32:
		return 32
	case sBV64, sF64:
		return 64
	}
	return 0
}

func (s ssort) isBV() bool { return s >= sBV8 && s <= sBV64 }
func (s ssort) isFP() bool { return s == sF32 || s == sF64 }

func bvSort(bits int) ssort {
	switch bits {
	case 8:
		return sBV8
	case 16:
		return sBV16
	case 32:
		return sBV32
	case 64:
		return sBV64
	}
	panic(fmt.Sprintf("bvSort(%d)", bits))
}

type sym struct {
	e string
	s ssort
}

func isSym(v value) bool { _, ok := v.(sym); return ok }

// basicSort maps a Go basic type to its sort and signedness.
func basicSort(t types.Type) (s ssort, signed bool, ok bool) {
	b, isB := t.Underlying().(*types.Basic)
	if !isB {
		return 0, false, false
	}
	switch b.Kind() {
	case types.Bool, types.UntypedBool:
		return sBool, false, true
	case types.Int8:
		return sBV8, true, true
	case types.Int16:
		return sBV16, true, true
	case types.Int32, types.UntypedRune:
		return sBV32, true, true
	case types.Int, types.Int64, types.UntypedInt:
		return sBV64, true, true
	case types.Uint8:
		return sBV8, false, true
	case types.Uint16:
		return sBV16, false, true
	case types.Uint32:
		return sBV32, false, true
	case types.Uint, types.Uint64, types.Uintptr:
		return sBV64, false, true
	case types.Float32:
		return sF32, false, true
	case types.Float64, types.UntypedFloat:
		return sF64, false, true
	case types.String, types.UntypedString:
		return sStr, false, true
	}
	return 0, false, false
}

func bvLit(v uint64, bits int) string {
	switch bits {
	case 8:
		return fmt.Sprintf("#x%02x", v&0xff)
	case 16:
		return fmt.Sprintf("#x%04x", v&0xffff)
	case 32:
		return fmt.Sprintf("#x%08x", v&0xffffffff)
	}
	return fmt.Sprintf("#x%016x", v)
}

func smtString(s string) string {
	var b strings.Builder
	b.WriteByte('"')
	for i := 0; i < len(s); i++ {
		c := s[i]
		switch {
		case c == '"':
			b.WriteString(`""`)
		case c >= 0x20 && c < 0x7f && c != '\\':
			b.WriteByte(c)
		default:
			fmt.Fprintf(&b, "\\u{%x}", c)
		}
	}
	b.WriteByte('"')
	return b.String()
}

// lit renders a concrete or symbolic scalar as an SMT term and reports its sort.
func lit(v value) (string, ssort) {
	switch v := v.(type) {
	case sym:
		return v.e, v.s
	case bool:
		if v {
			return "true", sBool
		}
		return "false", sBool
	case int:
		return bvLit(uint64(v), 64), sBV64
	case int8:
		return bvLit(uint64(v), 8), sBV8
	case int16:
		return bvLit(uint64(v), 16), sBV16
	case int32:
		return bvLit(uint64(v), 32), sBV32
	case int64:
		return bvLit(uint64(v), 64), sBV64
	case uint:
		return bvLit(uint64(v), 64), sBV64
	case uint8:
		return bvLit(uint64(v), 8), sBV8
	case uint16:
		return bvLit(uint64(v), 16), sBV16
	case uint32:
		return bvLit(uint64(v), 32), sBV32
	case uint64:
		return bvLit(v, 64), sBV64
	case uintptr:
		return bvLit(uint64(v), 64), sBV64
	case float32:
		return "((_ to_fp 8 24) " + bvLit(uint64(math.Float32bits(v)), 32) + ")", sF32
	case float64:
		return "((_ to_fp 11 53) " + bvLit(math.Float64bits(v), 64) + ")", sF64
	case string:
		return smtString(v), sStr
	}
	panic(unsupported(fmt.Sprintf("lit: cannot render %T as an SMT term", v)))
}

func litE(v value) string { e, _ := lit(v); return e }

// concreteOf converts a uint64 bit pattern into the concrete Go value of type t.
func concreteOf(t types.Type, bits uint64) value {
	b := t.Underlying().(*types.Basic)
	switch b.Kind() {
	case types.Bool:
		return bits != 0
	case types.Int:
		return int(bits)
	case types.Int8:
		return int8(bits)
	case types.Int16:
		return int16(bits)
	case types.Int32:
		return int32(bits)
	case types.Int64:
		return int64(bits)
	case types.Uint:
		return uint(bits)
	case types.Uint8:
		return uint8(bits)
	case types.Uint16:
		return uint16(bits)
	case types.Uint32:
		return uint32(bits)
	case types.Uint64:
		return bits
	case types.Uintptr:
		return uintptr(bits)
	case types.Float32:
		return math.Float32frombits(uint32(bits))
	case types.Float64:
		return math.Float64frombits(bits)
	}
	panic(unsupported("concreteOf " + t.String()))
}

// ---------------------------------------------------------------- operators

func (x *Explorer) mk(e string, s ssort) sym {
	// hash-consing: the same expression over the same operands is the same term, so a reference
	// computation and the implementation's computation that coincide structurally are identical to the solver
	if t, ok := x.terms[e]; ok && t.s == s {
		return t
	}
	defer func() {
		x.terms[e] = sym{fmt.Sprintf("t%d", x.nterms), s}
	}()
	x.nterms++
	name := fmt.Sprintf("t%d", x.nterms)
	x.perm("(define-fun " + name + " () " + s.smt() + " " + e + ")")
	return sym{name, s}
}

func (x *Explorer) not(v value) value {
	switch v := v.(type) {
	case bool:
		return !v
	case sym:
		return x.mk("(not "+v.e+")", sBool)
	}
	panic(unsupported(fmt.Sprintf("not(%T)", v)))
}

func (x *Explorer) and(a, b value) value {
	if c, ok := a.(bool); ok {
		if !c {
			return false
		}
		return b
	}
	if c, ok := b.(bool); ok {
		if !c {
			return false
		}
		return a
	}
	return x.mk("(and "+litE(a)+" "+litE(b)+")", sBool)
}

func (x *Explorer) or(a, b value) value {
	if c, ok := a.(bool); ok {
		if c {
			return true
		}
		return b
	}
	if c, ok := b.(bool); ok {
		if c {
			return true
		}
		return a
	}
	return x.mk("(or "+litE(a)+" "+litE(b)+")", sBool)
}

func (x *Explorer) implies(a, b value) value { return x.or(x.not(a), b) }

// ite over scalars of one sort (either branch may be concrete).
func (x *Explorer) ite(c, a, b value) value {
	if cb, ok := c.(bool); ok {
		if cb {
			return a
		}
		return b
	}
	ea, sa := lit(a)
	eb, sb := lit(b)
	if sa != sb {
		panic(unsupported(fmt.Sprintf("ite: sorts differ %v %v", sa, sb)))
	}
	if ea == eb {
		return a
	}
	return x.mk("(ite "+litE(c)+" "+ea+" "+eb+")", sa)
}

// symBinop implements a binary operator when at least one operand is symbolic.
// t is the static type of the left operand (as in binop).
func (x *Explorer) symBinop(op token.Token, t types.Type, yt types.Type, a, b value) value {
	l, ls := lit(a)
	r, rs := lit(b)
	_, signed, _ := basicSort(t)
	switch op {
	case token.SHL, token.SHR:
		return x.symShift(op, signed, yt, l, ls, r, rs)
	}
	if ls != rs {
		panic(unsupported(fmt.Sprintf("symBinop %s: operand sorts differ (%v, %v)", op, ls, rs)))
	}
	pick := func(s, u string) string {
		if signed {
			return s
		}
		return u
	}
	switch {
	case ls == sBool:
		switch op {
		case token.EQL:
			return x.mk("(= "+l+" "+r+")", sBool)
		case token.NEQ:
			return x.mk("(xor "+l+" "+r+")", sBool)
		case token.AND, token.LAND:
			return x.and(a, b)
		case token.OR, token.LOR:
			return x.or(a, b)
		}
	case ls.isBV():
		var o string
		switch op {
		case token.ADD:
			o = "bvadd"
		case token.SUB:
			o = "bvsub"
		case token.MUL:
			o = "bvmul"
		case token.QUO:
			x.divCheck(b, rs)
			o = pick("bvsdiv", "bvudiv")
		case token.REM:
			x.divCheck(b, rs)
			o = pick("bvsrem", "bvurem")
		case token.AND:
			o = "bvand"
		case token.OR:
			o = "bvor"
		case token.XOR:
			o = "bvxor"
		case token.AND_NOT:
			return x.mk("(bvand "+l+" (bvnot "+r+"))", ls)
		case token.EQL:
			if l == r {
				return true
			}
			return x.mk("(= "+l+" "+r+")", sBool)
		case token.NEQ:
			if l == r {
				return false
			}
			return x.mk("(not (= "+l+" "+r+"))", sBool)
		case token.LSS:
			return x.mk("("+pick("bvslt", "bvult")+" "+l+" "+r+")", sBool)
		case token.LEQ:
			return x.mk("("+pick("bvsle", "bvule")+" "+l+" "+r+")", sBool)
		case token.GTR:
			return x.mk("("+pick("bvsgt", "bvugt")+" "+l+" "+r+")", sBool)
		case token.GEQ:
			return x.mk("("+pick("bvsge", "bvuge")+" "+l+" "+r+")", sBool)
		}
		if o != "" {
			return x.mk("("+o+" "+l+" "+r+")", ls)
		}
	case ls.isFP():
		var o string
		switch op {
		case token.ADD:
			o = "fp.add RNE"
		case token.SUB:
			o = "fp.sub RNE"
		case token.MUL:
			o = "fp.mul RNE"
		case token.QUO:
			o = "fp.div RNE"
		case token.EQL:
			return x.mk("(fp.eq "+l+" "+r+")", sBool)
		case token.NEQ:
			return x.mk("(not (fp.eq "+l+" "+r+"))", sBool)
		case token.LSS:
			return x.mk("(fp.lt "+l+" "+r+")", sBool)
		case token.LEQ:
			return x.mk("(fp.leq "+l+" "+r+")", sBool)
		case token.GTR:
			return x.mk("(fp.gt "+l+" "+r+")", sBool)
		case token.GEQ:
			return x.mk("(fp.geq "+l+" "+r+")", sBool)
		}
		if o != "" {
			return x.mk("("+o+" "+l+" "+r+")", ls)
		}
	case ls == sStr:
		switch op {
		case token.ADD:
			return x.mk("(str.++ "+l+" "+r+")", sStr)
		case token.EQL:
			return x.mk("(= "+l+" "+r+")", sBool)
		case token.NEQ:
			return x.mk("(not (= "+l+" "+r+"))", sBool)
		case token.LSS:
			return x.mk("(str.< "+l+" "+r+")", sBool)
		case token.LEQ:
			return x.mk("(str.<= "+l+" "+r+")", sBool)
		case token.GTR:
			return x.mk("(str.< "+r+" "+l+")", sBool)
		case token.GEQ:
			return x.mk("(str.<= "+r+" "+l+")", sBool)
		}
	}
	panic(unsupported(fmt.Sprintf("symBinop: %s on sort %v", op, ls)))
}

// divCheck forks on a symbolic integer divisor being zero (Go panics there).
func (x *Explorer) divCheck(d value, s ssort) {
	ds, ok := d.(sym)
	if !ok {
		if asUint64Any(d) == 0 {
			panic(runtimeErr("runtime error: integer divide by zero"))
		}
		return
	}
	z := x.mk("(= "+ds.e+" "+bvLit(0, s.bits())+")", sBool)
	if x.decide(z, "div-by-zero") {
		panic(runtimeErr("runtime error: integer divide by zero"))
	}
}

func asUint64Any(v value) uint64 {
	switch v := v.(type) {
	case int:
		return uint64(v)
	case int8:
		return uint64(v)
	case int16:
		return uint64(v)
	case int32:
		return uint64(v)
	case int64:
		return uint64(v)
	case uint:
		return uint64(v)
	case uint8:
		return uint64(v)
	case uint16:
		return uint64(v)
	case uint32:
		return uint64(v)
	case uint64:
		return v
	case uintptr:
		return uint64(v)
	case bool:
		if v {
			return 1
		}
		return 0
	}
	panic(unsupported(fmt.Sprintf("asUint64Any(%T)", v)))
}

func (x *Explorer) symShift(op token.Token, signed bool, yt types.Type, l string, ls ssort, r string, rs ssort) value {
	if !ls.isBV() || !rs.isBV() {
		panic(unsupported("shift on non-integer sorts"))
	}
	w := ls.bits()
	_, ysigned, _ := basicSort(yt)
	if ysigned {
		neg := x.mk("(bvslt "+r+" "+bvLit(0, rs.bits())+")", sBool)
		if x.decide(neg, "negative-shift") {
			panic(runtimeErr("runtime error: negative shift amount"))
		}
	}
	// bring the count to the width of the left operand, saturating
	var cnt string
	var big string
	switch {
	case rs.bits() == w:
		cnt = r
		big = "(bvuge " + r + " " + bvLit(uint64(w), w) + ")"
	case rs.bits() < w:
		cnt = fmt.Sprintf("((_ zero_extend %d) %s)", w-rs.bits(), r)
		big = "(bvuge " + cnt + " " + bvLit(uint64(w), w) + ")"
	default:
		cnt = fmt.Sprintf("((_ extract %d 0) %s)", w-1, r)
		big = "(bvuge " + r + " " + bvLit(uint64(w), rs.bits()) + ")"
	}
	var sh, over string
	switch {
	case op == token.SHL:
		sh, over = "(bvshl "+l+" "+cnt+")", bvLit(0, w)
	case signed:
		sh = "(bvashr " + l + " " + cnt + ")"
		over = "(bvashr " + l + " " + bvLit(uint64(w-1), w) + ")"
	default:
		sh, over = "(bvlshr "+l+" "+cnt+")", bvLit(0, w)
	}
	return x.mk("(ite "+big+" "+over+" "+sh+")", ls)
}

func (x *Explorer) symUnop(op token.Token, v sym) value {
	switch op {
	case token.NOT:
		return x.mk("(not "+v.e+")", sBool)
	case token.SUB:
		if v.s.isBV() {
			return x.mk("(bvneg "+v.e+")", v.s)
		}
		if v.s.isFP() {
			return x.mk("(fp.neg "+v.e+")", v.s)
		}
	case token.XOR:
		if v.s.isBV() {
			return x.mk("(bvnot "+v.e+")", v.s)
		}
	}
	panic(unsupported(fmt.Sprintf("symUnop %s on sort %v", op, v.s)))
}

// symConv converts symbolic scalar v of static type src to static type dst.
func (x *Explorer) symConv(dst, src types.Type, v sym) value {
	ds, dsigned, ok1 := basicSort(dst)
	_, ssigned, ok2 := basicSort(src)
	if !ok1 || !ok2 {
		panic(unsupported(fmt.Sprintf("symConv %s -> %s", src, dst)))
	}
	ss := v.s
	switch {
	case ss == ds && (ss.isBV() || ss == sBool || ss == sStr || ss.isFP()):
		return v
	case ss.isBV() && ds.isBV():
		sw, dw := ss.bits(), ds.bits()
		if dw < sw {
			return x.mk(fmt.Sprintf("((_ extract %d 0) %s)", dw-1, v.e), ds)
		}
		ext := "zero_extend"
		if ssigned {
			ext = "sign_extend"
		}
		return x.mk(fmt.Sprintf("((_ %s %d) %s)", ext, dw-sw, v.e), ds)
	case ss.isBV() && ds.isFP():
		eb, sb := 11, 53
		if ds == sF32 {
			eb, sb = 8, 24
		}
		f := "to_fp"
		if !ssigned {
			f = "to_fp_unsigned"
		}
		return x.mk(fmt.Sprintf("((_ %s %d %d) RNE %s)", f, eb, sb, v.e), ds)
	case ss.isFP() && ds.isFP():
		eb, sb := 11, 53
		if ds == sF32 {
			eb, sb = 8, 24
		}
		return x.mk(fmt.Sprintf("((_ to_fp %d %d) RNE %s)", eb, sb, v.e), ds)
	case ss.isFP() && ds.isBV():
		// Go leaves out-of-range float->int conversions implementation-defined.
		// The path continues only for in-range values; the other side is counted as outside the claim.
		dw := ds.bits()
		var lo, hi float64
		if dsigned {
			lo, hi = -math.Ldexp(1, dw-1), math.Ldexp(1, dw-1)
		} else {
			lo, hi = -1, math.Ldexp(1, dw)
		}
		var loE, hiE string
		if ss == sF64 {
			loE, _ = lit(lo)
			hiE, _ = lit(hi)
		} else {
			loE, _ = lit(float32(lo))
			hiE, _ = lit(float32(hi))
		}
		var in string
		if dsigned {
			in = "(and (fp.geq " + v.e + " " + loE + ") (fp.lt " + v.e + " " + hiE + "))"
		} else {
			in = "(and (fp.gt " + v.e + " " + loE + ") (fp.lt " + v.e + " " + hiE + "))"
		}
		inr := x.mk(in, sBool)
		if !x.decide(inr, "float-to-int-in-range") {
			panic(pathEnd{kind: endOutside, msg: "float->int conversion out of range (implementation-defined in Go)"})
		}
		f := "fp.to_ubv"
		if dsigned {
			f = "fp.to_sbv"
		}
		return x.mk(fmt.Sprintf("((_ %s %d) RTZ %s)", f, dw, v.e), ds)
	}
	panic(unsupported(fmt.Sprintf("symConv %s -> %s (sorts %v -> %v)", src, dst, ss, ds)))
}
