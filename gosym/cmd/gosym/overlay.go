package main

// gosym overlay: builds the overlay used both by gosym (go/packages) and by native
// builds (go build/test -overlay): harness files are placed into package directories of
// the module, and functions to be stubbed are *renamed* in a copy of their source file
// (the harness supplies the replacement under the original name). The rest of each
// copied file is byte-identical, so line numbers are preserved.

import (
	"encoding/json"
	"flag"
	"fmt"
	"go/ast"
	"go/parser"
	"go/token"
	"os"
	"path/filepath"
	"sort"
	"strings"
)

func overlayCmd(argv []string) int {
	fs := flag.NewFlagSet("overlay", flag.ExitOnError)
	dir := fs.String("dir", "/repo", "module directory")
	work := fs.String("work", "", "directory receiving rewritten copies")
	out := fs.String("out", "", "overlay JSON to write")
	var harness, renames multi
	fs.Var(&harness, "harness", "srcdir=pkgdir : every *.go in srcdir becomes <dir>/<pkgdir>/zz_verif_<name>")
	fs.Var(&renames, "rename", "relfile:Recv.Method or relfile:Func : renamed to <name>VerifOrig in an overlaid copy")
	fs.Parse(argv)
	if *work == "" || *out == "" {
		fmt.Fprintln(os.Stderr, "overlay: -work and -out are required")
		return 2
	}
	os.MkdirAll(*work, 0o755)
	repl := map[string]string{}
	for _, h := range harness {
		kv := strings.SplitN(h, "=", 2)
		if len(kv) != 2 {
			fmt.Fprintln(os.Stderr, "overlay: bad -harness", h)
			return 2
		}
		files, _ := filepath.Glob(filepath.Join(kv[0], "*.go"))
		sort.Strings(files)
		for _, f := range files {
			abs, _ := filepath.Abs(f)
			repl[filepath.Join(*dir, kv[1], "zz_verif_"+filepath.Base(f))] = abs
		}
	}
	byFile := map[string][]string{}
	for _, r := range renames {
		kv := strings.SplitN(r, ":", 2)
		if len(kv) != 2 {
			fmt.Fprintln(os.Stderr, "overlay: bad -rename", r)
			return 2
		}
		byFile[kv[0]] = append(byFile[kv[0]], kv[1])
	}
	for rel, targets := range byFile {
		src := filepath.Join(*dir, rel)
		data, err := os.ReadFile(src)
		if err != nil {
			fmt.Fprintln(os.Stderr, "overlay:", err)
			return 3
		}
		fset := token.NewFileSet()
		f, err := parser.ParseFile(fset, src, data, parser.SkipObjectResolution)
		if err != nil {
			fmt.Fprintln(os.Stderr, "overlay:", err)
			return 3
		}
		type edit struct{ off int }
		var offs []int
		for _, tgt := range targets {
			recv, name := "", tgt
			if i := strings.Index(tgt, "."); i >= 0 {
				recv, name = tgt[:i], tgt[i+1:]
			}
			found := false
			for _, d := range f.Decls {
				fd, ok := d.(*ast.FuncDecl)
				if !ok || fd.Name.Name != name {
					continue
				}
				r := ""
				if fd.Recv != nil && len(fd.Recv.List) == 1 {
					t := fd.Recv.List[0].Type
					if st, ok := t.(*ast.StarExpr); ok {
						t = st.X
					}
					if id, ok := t.(*ast.Ident); ok {
						r = id.Name
					}
				}
				if r != recv {
					continue
				}
				offs = append(offs, fset.Position(fd.Name.End()).Offset)
				found = true
			}
			if !found {
				fmt.Fprintf(os.Stderr, "overlay: INFRA: %s has no function %s (the code under test changed shape)\n", rel, tgt)
				return 3
			}
		}
		sort.Sort(sort.Reverse(sort.IntSlice(offs)))
		for _, o := range offs {
			data = append(data[:o], append([]byte("VerifOrig"), data[o:]...)...)
		}
		dst := filepath.Join(*work, strings.ReplaceAll(rel, "/", "__"))
		if err := os.WriteFile(dst, data, 0o644); err != nil {
			fmt.Fprintln(os.Stderr, "overlay:", err)
			return 3
		}
		abs, _ := filepath.Abs(dst)
		repl[src] = abs
	}
	b, _ := json.MarshalIndent(overlayFile{Replace: repl}, "", " ")
	if err := os.WriteFile(*out, b, 0o644); err != nil {
		fmt.Fprintln(os.Stderr, "overlay:", err)
		return 3
	}
	return 0
}
