// gosym: symbolic executor for Go SSA used by the /verif checks.
//
//	gosym run     -dir /repo -overlay o.json -pkg ./engine -entry engine.VerifC03 -args 3,2 -out r.json ...
//	gosym overlay -dir /repo -harness dir=pkgdir ... -rename file:Recv.Method ... -work w -out o.json
package main

import (
	"crypto/sha256"
	"encoding/hex"
	"encoding/json"
	"flag"
	"fmt"
	"os"
	"sort"
	"strings"
	"time"

	"golang.org/x/tools/go/packages"
	"golang.org/x/tools/go/ssa"
	"golang.org/x/tools/go/ssa/ssautil"

	"gosym/interp"
)

type multi []string

func (m *multi) String() string     { return strings.Join(*m, ",") }
func (m *multi) Set(s string) error { *m = append(*m, s); return nil }

func main() {
	if len(os.Args) < 2 {
		fmt.Fprintln(os.Stderr, "usage: gosym run|overlay ...")
		os.Exit(2)
	}
	switch os.Args[1] {
	case "run":
		os.Exit(runCmd(os.Args[2:]))
	case "overlay":
		os.Exit(overlayCmd(os.Args[2:]))
	}
	fmt.Fprintln(os.Stderr, "unknown subcommand", os.Args[1])
	os.Exit(2)
}

type overlayFile struct {
	Replace map[string]string `json:"Replace"`
}

func loadEnv() []string {
	var env []string
	for _, e := range os.Environ() {
		if strings.HasPrefix(e, "GOTOOLCHAIN=") || strings.HasPrefix(e, "GOFLAGS=") || strings.HasPrefix(e, "GOPROXY=") || strings.HasPrefix(e, "GOSUMDB=") {
			continue
		}
		env = append(env, e)
	}
	return append(env, "GOFLAGS=-mod=mod", "GOPROXY=off")
}

type Result struct {
	Entry         string                       `json:"entry"`
	Args          []string                     `json:"args"`
	Paths         int                          `json:"paths"`
	PathsByEnd    map[string]int               `json:"paths_by_end"`
	EndMsgs       map[string]int               `json:"end_msgs"`
	Decisions     int                          `json:"decisions"`
	MaxDepth      int                          `json:"max_depth"`
	Asserts       int                          `json:"assert_queries"`
	AssertsConc   int                          `json:"asserts_concrete"`
	Unsat         int                          `json:"unsat"`
	Sat           int                          `json:"sat"`
	Unknown       int                          `json:"unknown"`
	ByLabel       map[string]*interp.LabelStat `json:"by_label"`
	Reach         map[string]int               `json:"reach"`
	FeasQueries   int                          `json:"feasibility_queries"`
	UnknownFeas   int                          `json:"unknown_feasibility"`
	Violations    []interp.Violation           `json:"violations"`
	ViolCounts    map[string]int               `json:"violation_counts"`
	Witnesses     []interp.Witness             `json:"witnesses"`
	Funcs         []string                     `json:"functions_encoded"`
	Models        map[string]int               `json:"stubs_and_models"`
	BoundReduced  map[string]int               `json:"bound_reduced"`
	CrossAgree    int                          `json:"cross_agree"`
	CrossDisagree int                          `json:"cross_disagree"`
	CrossUnknown  int                          `json:"cross_unknown"`
	SolverTimeS   float64                      `json:"solver_time_s"`
	SolverQueries int                          `json:"solver_queries"`
	Instrs        int64                        `json:"instructions"`
	LoadS         float64                      `json:"load_s"`
	WallS         float64                      `json:"wall_s"`
	SourceHashes  map[string]string            `json:"source_hashes"`
	Solver        string                       `json:"solver"`
	Secondary     []string                     `json:"secondary"`
	Twin          map[string]int               `json:"twin"`
	Error         string                       `json:"error,omitempty"`
}

func runCmd(argv []string) int {
	fs := flag.NewFlagSet("run", flag.ExitOnError)
	dir := fs.String("dir", "/repo", "module directory")
	ovl := fs.String("overlay", "", "overlay JSON ({Replace:{virtual:real}})")
	var pkgPats multi
	fs.Var(&pkgPats, "pkg", "package pattern(s) to load (relative to dir)")
	entry := fs.String("entry", "", "pkgname.Func of the harness entry (pkgname = last element of the import path)")
	args := fs.String("args", "", "comma-separated concrete arguments")
	kbdir := fs.String("kbdir", "", "directory holding heap images")
	out := fs.String("out", "", "result JSON file")
	solver := fs.String("solver", "z3-new", "primary solver")
	secondary := fs.String("secondary", "", "comma-separated secondary solvers for property queries")
	timeoutMs := fs.Int("timeout-ms", 20000, "per-query solver timeout")
	maxPaths := fs.Int("max-paths", 200000, "path budget")
	maxDec := fs.Int("max-decisions", 2000, "decision depth budget per path")
	maxInstr := fs.Int64("max-instr", 20000000, "instruction budget per path")
	maxVals := fs.Int("max-values", 16, "values per concretisation site")
	workers := fs.Int("workers", 16, "parallel workers")
	witnesses := fs.Int("witnesses", 8, "passing-path witnesses to extract")
	wall := fs.Duration("wall", 0, "wall-clock budget (0 = none)")
	var inits multi
	fs.Var(&inits, "init", "extra package whose init function runs on every path")
	mod := fs.String("mod", "github.com/hyperjumptech/grule-rule-engine", "module path")
	fs.Parse(argv)

	t0 := time.Now()
	res := &Result{Entry: *entry, Solver: *solver}
	if *args != "" {
		res.Args = strings.Split(*args, ",")
	}
	if *secondary != "" {
		res.Secondary = strings.Split(*secondary, ",")
	}
	fail := func(msg string) int {
		res.Error = msg
		res.WallS = time.Since(t0).Seconds()
		writeJSON(*out, res)
		fmt.Fprintln(os.Stderr, "gosym: "+msg)
		return 3
	}

	cfg := &packages.Config{Mode: packages.LoadAllSyntax, Dir: *dir, Env: loadEnv(), Overlay: map[string][]byte{}}
	res.SourceHashes = map[string]string{}
	if *ovl != "" {
		b, err := os.ReadFile(*ovl)
		if err != nil {
			return fail(err.Error())
		}
		var of overlayFile
		if err := json.Unmarshal(b, &of); err != nil {
			return fail(err.Error())
		}
		for virt, real := range of.Replace {
			data, err := os.ReadFile(real)
			if err != nil {
				return fail(err.Error())
			}
			cfg.Overlay[virt] = data
		}
	}
	pkgs, err := packages.Load(cfg, pkgPats...)
	if err != nil {
		return fail("load: " + err.Error())
	}
	nerr := 0
	var errText strings.Builder
	packages.Visit(pkgs, nil, func(p *packages.Package) {
		for _, e := range p.Errors {
			nerr++
			if nerr <= 10 {
				errText.WriteString(e.Error() + "\n")
			}
		}
	})
	if nerr > 0 {
		return fail("load: package errors:\n" + errText.String())
	}
	prog, _ := ssautil.AllPackages(pkgs, ssa.InstantiateGenerics)
	// hash the module's own source files (what the encoding was generated from)
	packages.Visit(pkgs, nil, func(p *packages.Package) {
		if !strings.HasPrefix(p.PkgPath, *mod) {
			return
		}
		for _, f := range p.CompiledGoFiles {
			var data []byte
			if d, ok := cfg.Overlay[f]; ok {
				data = d
			} else if d, err := os.ReadFile(f); err == nil {
				data = d
			}
			h := sha256.Sum256(data)
			res.SourceHashes[strings.TrimPrefix(f, *dir+"/")] = hex.EncodeToString(h[:8])
		}
	})
	prebuilt := map[string]bool{"io": true, "errors": true, "context": true, "time": true, "bytes": true, "sort": true, "slices": true,
		"encoding/binary": true, "math": true, "fmt": true, "strings": true, "strconv": true, "unicode/utf8": true}
	for _, p := range prog.AllPackages() {
		pp := p.Pkg.Path()
		if strings.HasPrefix(pp, *mod) || prebuilt[pp] {
			p.Build()
		}
	}
	// entry lookup
	dot := strings.LastIndex(*entry, ".")
	if dot < 0 {
		return fail("entry must be pkg.Func")
	}
	var entryFn *ssa.Function
	for _, p := range prog.AllPackages() {
		pp := p.Pkg.Path()
		if strings.HasPrefix(pp, *mod) && (pp == (*entry)[:dot] || strings.HasSuffix(pp, "/"+(*entry)[:dot])) {
			if f := p.Func((*entry)[dot+1:]); f != nil {
				entryFn = f
			}
		}
	}
	if entryFn == nil {
		return fail("entry function not found: " + *entry)
	}
	initPkgs := []string{"io", "time", "context", *mod + "/logger", *mod + "/pkg", *mod + "/model", *mod + "/ast", *mod + "/engine"}
	initPkgs = append(initPkgs, inits...)
	seenInit := map[string]bool{}
	for _, p := range initPkgs {
		seenInit[p] = true
	}
	if ep := entryFn.Pkg.Pkg.Path(); !seenInit[ep] {
		initPkgs = append(initPkgs, ep) // the harness package's own package-level variables
	}
	prep, err := interp.Prepare(prog, entryFn, res.Args, initPkgs, *mod, *kbdir)
	if err != nil {
		return fail(err.Error())
	}
	res.LoadS = time.Since(t0).Seconds()

	c := interp.Config{Solver: *solver, Secondary: res.Secondary, TimeoutMs: *timeoutMs, MaxPaths: *maxPaths, MaxDecisions: *maxDec,
		MaxInstr: *maxInstr, MaxValues: *maxVals, Workers: *workers, Witnesses: *witnesses}
	if *wall > 0 {
		c.Deadline = time.Now().Add(*wall)
	}
	sh, err := interp.Explore(prep, c)
	if sh != nil {
		res.Paths, res.PathsByEnd, res.EndMsgs = sh.Paths, sh.PathsByEnd, sh.EndMsgs
		res.Decisions, res.MaxDepth = sh.Decisions, sh.MaxTrail
		res.Asserts, res.AssertsConc = sh.Asserts, sh.AssertsConcrete
		res.Unsat, res.Sat, res.Unknown = sh.AssertUnsat, sh.AssertSat, sh.AssertUnknown
		res.ByLabel, res.Reach = sh.AssertByLabel, sh.Reach
		res.FeasQueries, res.UnknownFeas = sh.FeasQueries, sh.UnknownFeas
		res.Violations, res.Witnesses = sh.Violations, sh.Witnesses
		res.ViolCounts = map[string]int{}
		for _, l := range sh.ViolationLabels() {
			res.ViolCounts[l] = sh.ViolationCount(l)
		}
		for f := range sh.Funcs {
			res.Funcs = append(res.Funcs, f)
		}
		sort.Strings(res.Funcs)
		res.Models, res.BoundReduced, res.Twin = sh.Models, sh.BoundReduced, sh.Twin
		res.CrossAgree, res.CrossDisagree, res.CrossUnknown = sh.CrossAgree, sh.CrossDisagree, sh.CrossUnknown
		res.SolverTimeS, res.SolverQueries, res.Instrs = sh.SolverTime.Seconds(), sh.SolverQueries, sh.Instrs
	}
	res.WallS = time.Since(t0).Seconds()
	if err != nil {
		return fail("explore: " + err.Error())
	}
	writeJSON(*out, res)
	fmt.Fprintf(os.Stderr, "gosym: %s%v paths=%d %v asserts=%d(+%d concrete) unsat=%d sat=%d unknown=%d viol=%v solver=%.1fs wall=%.1fs\n",
		*entry, res.Args, res.Paths, res.PathsByEnd, res.Asserts, res.AssertsConc, res.Unsat, res.Sat, res.Unknown, res.ViolCounts, res.SolverTimeS, res.WallS)
	for m, n := range res.EndMsgs {
		fmt.Fprintf(os.Stderr, "  end x%d: %s\n", n, m)
	}
	for m, n := range res.BoundReduced {
		fmt.Fprintf(os.Stderr, "  BOUND-REDUCED x%d: %s\n", n, m)
	}
	return 0
}

func writeJSON(path string, v any) {
	b, _ := json.MarshalIndent(v, "", " ")
	if path == "" || path == "-" {
		os.Stdout.Write(b)
		os.Stdout.Write([]byte("\n"))
		return
	}
	os.WriteFile(path, b, 0o644)
}
